"""C06 - Run state and System State always agree; control commands gated.

Rule-table oracle over the *reported* state (System State tag, control-state message built by the real
EngineMessageBuilder, Run Id tag, result of user requests). Deliberately no prediction of post-states: commands are
queued, Stop takes two ticks, a command accepted while a Stop is in flight legitimately ends in Stopped
(see DESIGN.md C06 and section 8).

What ties the reported transitions to the commands without predicting them is a *request budget*: every Restarting
window, every run (fresh Run Id / on_start) and every run end (Run Id gone / on_stop) must be paid for by a request of
its own - counted over the whole engine lifetime, so that nothing left behind by an earlier Start/Restart/Stop cycle
can restart, start or end a later run. The lifetime families (L, M, S) drive several run cycles per engine and place
the next request in every tick gap around the completion of the previous one."""
from __future__ import annotations

import random

from opv.core import Result

ID = "C06"
LEVEL = "exploration"
TECHNIQUE = ("runtime monitoring: rule table over reported state (System State tag vs control-state message, "
             "request acceptance vs validity in the reported state, Run Id discipline, request budget of Restarting "
             "windows / runs / run ends) after every tick of enumerated command sequences and enumerated multi-cycle "
             "lifetimes")
RULE = ("alphabet of 14 symbols = 7 user control commands (Start Stop Pause Unpause Hold Unhold Restart) + bare tick + "
        "6 method-issued commands injected into the running method (Pause, Pause: 0.2s, Hold, Hold: 0.2s, Stop, "
        "Restart). ENUMERATED: every sequence of exactly L symbols, each symbol followed by one tick, from the stopped "
        "state of a fresh engine, followed by 6 settle ticks (shorter sequences are the ones padded with tick symbols): "
        "L=4 quick, L=5 thorough; every sequence of L-1 symbols under every tick mask (which symbols are followed by "
        "a tick, so that several requests land in one tick); every sequence of L-1 symbols on 5 methods that issue "
        "Stop / Restart / Pause / Hold: 0.3s / timed Pause themselves. SAMPLED: seeded random sequences of length "
        "6-12 with random masks and methods. LIFETIMES (several run cycles on one engine): a step is a cycle command "
        "(user Start / Stop / Restart) followed by d ticks, d = c-1 .. c+2 around its nominal completion c (Start 1, "
        "Stop 2, Restart 3 ticks), i.e. the next request lands in the tick of completion, in the tick gap right after "
        "the completion was reported, or 1 / 2 ticks later; 12 step kinds. ENUMERATED: a first Start followed by 0..3 "
        "ticks, then every sequence of L-1 steps (base method); on each of the 5 self-commanding methods a first Start "
        "followed by 1..12 ticks, then every sequence of L-2 steps. SAMPLED: lifetimes of 5-9 steps over a wider "
        "alphabet (pause/hold commands, injected Stop/Restart/Pause/Hold, the method loaded again while Stopped). "
        "INTERPRETER PATH (family P): the alphabet is widened by the remaining engine-command instructions the parser "
        "accepts (injected Unpause, Unhold, Info, Warning, Error) and by Start scheduled through "
        "Engine.schedule_execution while a run is active (the one control command without an instruction form; the "
        "interpreter's entry has no user gating) = 20 symbols. ENUMERATED: a first Start and a tick, then every sequence "
        "of L-1 symbols that contains at least one of the 6 added symbols, a tick after every symbol. "
        "distinct = the (method, sequence, mask) triple; non-trivial = at least "
        "one request accepted and a state other than Stopped observed")
ASSUMPTIONS = [
    "'state at the time of the request' = System State tag and control-state message read immediately before the "
    "request is made (between ticks); the state during the tick in which a command executes is not observed",
    "validity table: Start iff Stopped; Stop/Restart iff active (not Stopped, not Restarting); Pause iff active and "
    "not paused; Unpause iff active and paused; Hold iff active and not holding; Unhold iff active and holding",
    "Restarting is legitimate only while a Restart command is in progress (resident in the engine's command registry) "
    "after a Restart was accepted from the user or issued by the method at some earlier point of the history; the "
    "window lasts at most 3 tick ends and is followed by Stopped or Running",
    "request budget (reading of 'Restarting only during a restart', 'Stopped exactly when no run is active', 'every "
    "run gets a fresh run id that is cleared when the run ends' for a history of *commands*): requests = user requests "
    "accepted + Start/Stop/Restart lines of the method or of injected code reaching Engine.schedule_execution, counted "
    "from the creation of the engine. At every tick end: Restarting windows so far <= Restart requests so far; distinct "
    "Run Ids shown and on_start events so far <= Start + Restart requests so far; Run Ids gone and on_stop events so "
    "far <= Stop + Restart requests so far. Per run: a Restarting window that opens while a Run Id is shown needs a "
    "Restart requested since the tick that first showed that id began (requests made in the gap before that tick "
    "included); a Run Id shown at one tick end and gone at the next needs a Stop or Restart requested in that span. "
    "Upper bounds only: a rejected, cancelled or failed request still counts, which of two racing requests wins is not "
    "judged, and a request made during the run may be honoured several ticks later",
    "bounded progress (reading of 'Stop is valid/accepted'): after an accepted user Stop some tick end within the "
    "next 4 ticks shows Stopped; the obligation is void (counted) when a Restart has been requested anywhere in the "
    "history, because a Restart cancels a Stop in flight and the property does not say which wins",
    "method-issued commands are issued with Engine.inject_code (same interpreter path as a method line) or by method "
    "lines; requests are applied between ticks, single-threaded",
    "a control command that has no instruction form (Start) is scheduled through Engine.schedule_execution, the entry "
    "the interpreter uses for command lines; only while a run is active (reported state neither Stopped nor Restarting: "
    "the interpreter is only ticked during a run), alone in its tick gap. It counts as a Start request in the budget "
    "(upper bounds only); the per-run clauses do not depend on Start requests, so an engine that refuses it must show "
    "the same Run Id afterwards",
    "trusted base: engine rig (virtual clock, recording hardware), real EngineMessageBuilder.create_control_state_msg",
]
REQUIRED = {"agree_checks": 300000, "gating_accepted": 10000, "gating_rejected": 50000, "runid_checks": 300000,
            "restart_windows": 1000, "stop_progress_checks": 800, "states_seen_Paused": 8000, "states_seen_Holding": 8000,
            "paused_and_holding_ticks": 1500, "new_run_ids": 8000,
            # request budget judged; lifetimes with a later run cycle reached, incl. a Start in the tick gap in which the
            # completion of the previous Stop was reported, on an engine that has restarted before
            "request_budget_checks": 400000, "restart_budget_checks_with_window": 50000,
            "run_end_justification_checks": 10000, "restart_window_justification_checks": 5000,
            "runs_after_an_earlier_cycle": 8000,
            "later_cycle_starts_in_completion_gap": 500, "later_cycle_starts_in_completion_gap_after_a_restart": 300,
            "cases_L": 6000, "cases_M": 8000, "cases_S": 1500,
            # interpreter path: every engine command of the registry is in the alphabet; Start scheduled while a run is
            # active and the following tick judged (Run Id discipline, per-run clauses); Unpause / Unhold injected
            "cases_P": 4000, "alphabet_covers_command_registry": 1, "scheduled_Start_while_run_active": 500,
            "ticks_judged_after_scheduled_Start_while_run_active": 500, "injected_Unpause": 500, "injected_Unhold": 500}
EXHAUSTIVE_ALL = False

USER = ["Start", "Stop", "Pause", "Unpause", "Hold", "Unhold", "Restart"]
INJ = ["Pause", "Pause: 0.2s", "Hold", "Hold: 0.2s", "Stop", "Restart"]
ALPHA = ["u:" + c for c in USER] + ["tick"] + ["i:" + c for c in INJ]
# the rest of the engine's command registry on the interpreter's path (family P): the other instruction lines the parser
# turns into engine commands, injected; the control command that has no instruction form, scheduled through
# Engine.schedule_execution. Compared with the registry of the code under test by registry_covered().
NEW = ["s:Start", "i:Unpause", "i:Unhold", "i:Info: x", "i:Warning: x", "i:Error: x"]
ALPHA2 = ALPHA + NEW
BASE_METHOD = "Base: s\nWait: 100s\n"
METHODS = [
    "Base: s\nWait: 0.2s\nStop\n",
    "Base: s\nWait: 0.2s\nRestart\n",
    "Base: s\nMark: a\nPause\nMark: b\nHold: 0.3s\nMark: c\nWait: 100s\n",
    "Base: s\nPause: 0.3s\nHold\nWait: 0.2s\nStop\n",
    "Base: s\nHold: 0.3s\nWait: 0.1s\nRestart\n",
]
SETTLE = 6

# ---- lifetime strata (several run cycles in one engine lifetime) -----------------------------------------------
# A lifetime is a list of steps (request, d) = the request followed by d ticks; it is flattened into the ordinary
# (seq, mask) form, so driving, judging and replay are the same as for the other families. For a cycle command the gap d
# is taken relative to its nominal completion c (Start 1 tick, Stop 2, Restart 3): d in c-1 .. c+2, i.e. the next request
# lands in the tick in which the previous one completes, in the tick gap in which its completion has just been
# reported (0 ticks after it), or 1 or 2 ticks after it.
CYCLE = ["u:Start", "u:Stop", "u:Restart"]
NOMINAL = {"Start": 1, "Stop": 2, "Restart": 3}
CYCLE_STEPS = [(c, NOMINAL[c[2:]] - 1 + j) for c in CYCLE for j in range(4)]      # 12 step kinds
FIRST_STEPS = [("u:Start", d) for d in range(4)]
METHOD_FIRST_GAPS = list(range(1, 13))      # first Start on a self-commanding method: every phase of its own schedule
RELOAD = "m:reload"                         # the same method is loaded again (Engine.set_method) while Stopped
WIDE = (["u:Start", "u:Stop", "u:Restart"] * 4 + ["u:Pause", "u:Unpause", "u:Hold", "u:Unhold", "i:Stop", "i:Restart",
        "i:Pause", "i:Hold: 0.2s", "i:Pause: 0.2s", RELOAD])


def flatten(steps) -> tuple[list[str], list[int]]:
    seq: list[str] = []
    mask: list[int] = []
    for sym, d in steps:
        seq.append(sym)
        mask.append(1 if d >= 1 else 0)
        for _ in range(d - 1):
            seq.append("tick")
            mask.append(1)
    return seq, mask


def _steps_from_index(idx: int, k: int) -> list[tuple[str, int]]:
    out = []
    for _ in range(k):
        out.append(CYCLE_STEPS[idx % len(CYCLE_STEPS)])
        idx //= len(CYCLE_STEPS)
    return out[::-1]


# ---------------------------------------------------------------------------------------------------------------
def plan(tier, seed):
    L = 4 if tier == "quick" else 5
    shards = 16 if tier == "quick" else 48
    n_rand = 1600 if tier == "quick" else 24000
    specs = []
    for i in range(shards):
        specs.append({"seed": seed * 1000003 + i, "L": L, "shard": i, "of": shards, "n_rand": n_rand // shards})
    return specs


def _seq_from_index(idx: int, L: int) -> list[str]:
    out = []
    for _ in range(L):
        out.append(ALPHA[idx % len(ALPHA)])
        idx //= len(ALPHA)
    return out[::-1]


def registry_covered(res: Result) -> None:
    from openpectus.engine.models import EngineCommandEnum
    from openpectus.lang.model.ast import EngineCommandNode
    import openpectus.engine.internal_commands_impl as impl
    registered = {nm[:-len("EngineCommand")] for nm in dir(impl)
                  if isinstance(getattr(impl, nm), type) and nm.endswith("EngineCommand") and nm != "InternalEngineCommand"}
    injected = {x[2:].split(":")[0] for x in ALPHA2 if x.startswith("i:")}
    scheduled = {x[2:] for x in ALPHA2 if x.startswith("s:")}
    missing = sorted(set(EngineCommandNode.instruction_names) - injected)
    missing += sorted({str(c) for c in EngineCommandEnum if str(c) in registered} - injected - scheduled)
    if missing:
        res.notes.append(f"engine commands missing from the C06 interpreter-path alphabet: {missing}")
        res.count("engine_commands_not_in_alphabet", len(missing))
    else:
        res.count("alphabet_covers_command_registry")


def _seq2_from_index(idx: int, L: int) -> list[str]:
    out = []
    for _ in range(L):
        out.append(ALPHA2[idx % len(ALPHA2)])
        idx //= len(ALPHA2)
    return out[::-1]


def cases_for_shard(spec):
    """Yields (kind, case). The enumerated families are split over shards by index modulo."""
    L, sh, of = spec["L"], spec["shard"], spec["of"]
    n = len(ALPHA)
    # family A: all sequences of exactly L symbols, a tick after each symbol
    for idx in range(sh, n ** L, of):
        yield "A", {"method": BASE_METHOD, "seq": _seq_from_index(idx, L), "mask": None}
    # family B: all sequences of L-1 symbols x all tick masks except the all-ones mask (that one is family A)
    Lb = L - 1
    k = 0
    for idx in range(n ** Lb):
        seq = None
        for m in range(2 ** Lb - 1):
            if k % of == sh:
                if seq is None:
                    seq = _seq_from_index(idx, Lb)
                yield "B", {"method": BASE_METHOD, "seq": seq, "mask": [(m >> j) & 1 for j in range(Lb)]}
            k += 1
    # family C: methods that issue commands themselves x all sequences of L-1 symbols
    k = 0
    for mi, meth in enumerate(METHODS):
        for idx in range(n ** Lb):
            if k % of == sh:
                yield "C", {"method": meth, "seq": _seq_from_index(idx, Lb), "mask": None}
            k += 1
    # family L: lifetimes of K = L cycle steps on the base method: a first Start followed by 0..3 ticks, then every
    # sequence of K-1 steps out of the 12 (cycle command, gap) kinds
    K = L
    nst = len(CYCLE_STEPS)
    k = 0
    for first in FIRST_STEPS:
        for idx in range(nst ** (K - 1)):
            if k % of == sh:
                seq, mask = flatten([first] + _steps_from_index(idx, K - 1))
                yield "L", {"method": BASE_METHOD, "seq": seq, "mask": mask}
            k += 1
    # family M: lifetimes of K-1 steps on the methods that issue commands themselves: a first Start followed by 1..12
    # ticks (the method's own Stop/Restart/Pause/Hold has not begun / is in flight / has completed), then every sequence of
    # K-2 steps
    for meth in METHODS:
        for d0 in METHOD_FIRST_GAPS:
            for idx in range(nst ** (K - 2)):
                if k % of == sh:
                    seq, mask = flatten([("u:Start", d0)] + _steps_from_index(idx, K - 2))
                    yield "M", {"method": meth, "seq": seq, "mask": mask}
                k += 1
    # family P: interpreter path. A first Start and a tick, then all sequences of L-1 symbols over the widened alphabet
    # that contain at least one of the added symbols, a tick after every symbol
    k = 0
    for idx in range(len(ALPHA2) ** Lb):
        seq = _seq2_from_index(idx, Lb)
        if not any(x in NEW for x in seq):
            continue
        if k % of == sh:
            yield "P", {"method": BASE_METHOD, "seq": ["u:Start"] + seq, "mask": None}
        k += 1
    # family S: sampled longer lifetimes over a wider alphabet (pause/hold flags, method-issued Stop/Restart, the method
    # loaded again between runs), gaps as above for the cycle commands and 0..2 ticks for the others
    rnd = random.Random(spec["seed"] ^ 0x5EED06)
    for _ in range(spec["n_rand"]):
        steps = [("u:Start", rnd.randint(0, 3))]
        for _j in range(rnd.randint(4, 8)):
            sym = rnd.choice(WIDE)
            c = NOMINAL.get(sym[2:])
            steps.append((sym, rnd.randint(c - 1, c + 2) if c is not None else rnd.randint(0, 2)))
        seq, mask = flatten(steps)
        meth = BASE_METHOD if rnd.random() < 0.6 else rnd.choice(METHODS)
        yield "S", {"method": meth, "seq": seq, "mask": mask}
    # family R: random longer sequences
    rnd = random.Random(spec["seed"])
    for _ in range(spec["n_rand"]):
        ln = rnd.randint(6, 12)
        # bias towards reaching a run: most sequences start with Start
        seq = [rnd.choice(ALPHA) for _ in range(ln)]
        if rnd.random() < 0.7:
            seq[0] = "u:Start"
        mask = [1 if rnd.random() < 0.75 else 0 for _ in range(ln)]
        meth = BASE_METHOD if rnd.random() < 0.6 else rnd.choice(METHODS)
        yield "R", {"method": meth, "seq": seq, "mask": mask}


# ---------------------------------------------------------------------------------------------------------------
def derived_state(cs) -> str:
    if not cs.is_running:
        return "Stopped"
    if cs.is_paused:
        return "Paused"
    if cs.is_holding:
        return "Holding"
    return "Running"


def valid(cmd: str, st: str, paused: bool, holding: bool) -> bool:
    active = st not in ("Stopped", "Restarting")
    return {"Start": st == "Stopped", "Stop": active, "Restart": active,
            "Pause": active and not paused, "Unpause": active and paused,
            "Hold": active and not holding, "Unhold": active and holding}[cmd]


_LOCAL_KEYS = ("C06.restarting_without_restart_request_in_this_run", "C06.run_ended_without_stop_or_restart_request")
_EXEC_SINK: list = [None]
_probe_installed = [False]


def _install_exec_probe():
    """Recording wrapper around CommandManager._execute_command (delegates unchanged): which requests executed in a
    tick and whether the run was started before/after each. Only used to *name the mechanism* of an alarm."""
    if _probe_installed[0]:
        return
    _probe_installed[0] = True
    import openpectus.engine.command_manager as CM
    orig = CM.CommandManager._execute_command

    def _execute_command(self, cmd_request):
        sink = _EXEC_SINK[0]
        if sink is None:
            return orig(self, cmd_request)
        rig, log = sink
        before = rig.e._runstate_started
        try:
            return orig(self, cmd_request)
        finally:
            log.append((rig.k, cmd_request.name, str(cmd_request.source), before, rig.e._runstate_started,
                        cmd_request))
    _execute_command.__wrapped__ = orig  # type: ignore
    CM.CommandManager._execute_command = _execute_command  # type: ignore


def _ran_after_run_end(execlog, tick):
    """A request began executing in `tick` on an engine whose run had been ended (started True -> False) by an
    earlier request of the same command-manager pass. Returns (ender, late command) or None."""
    ender = None
    for (k, name, _src, before, after, _rq) in execlog:
        if k != tick:
            continue
        if ender is not None and not before and name != "Start":
            return ender, name
        if before and not after:
            ender = name
    return None


def _interrupted_restart_resumed(execlog, tick):
    """A Restart request executed in `tick` (or the tick before) that (a) had already executed at an earlier tick,
    (b) has never itself ended or started a run (none of its earlier executions changed Engine._runstate_started: it got
    no further than its first phase, or failed on the stopped engine), and (c) a Stop request ended the run at or after
    the tick of its first execution. I.e. a Restart that an accepted Stop interrupted / overtook is carried from
    CommandManager to CommandManager and resumed against a later run. Returns the tick at which the request first
    executed, or None. (A Restart that completed - it ended and started a run - never matches.)"""
    for (k, name, _src, _before, _after, rq) in execlog:
        if name != "Restart" or k not in (tick, tick - 1):
            continue
        earlier = [e for e in execlog if e[5] is rq and e[0] < min(k, tick)]
        if not earlier or not all(e[3] == e[4] for e in earlier):
            continue
        t1 = earlier[0][0]
        if any(e[1] == "Stop" and e[3] and not e[4] and t1 <= e[0] < k for e in execlog):
            return t1
    return None


def check_case(case, res: Result, kind: str = "?"):
    from opv.rigs import engine_rig as R
    from openpectus.engine.engine_message_builder import EngineMessageBuilder

    seq = case["seq"]
    mask = case.get("mask") or [1] * len(seq)
    method = case["method"]
    method_restarts = "Restart" in method
    rig = R.EngineRig(method, hooks=False)
    viol: list[tuple[str | None, str]] = []
    hist: list = []
    execlog: list[tuple] = []            # (tick, command name, source, started_before, started_after, request object)
    _install_exec_probe()
    _EXEC_SINK[0] = (rig, execlog)
    try:
        mb = EngineMessageBuilder(rig.e, "", False)
        S = {"prev": "Stopped", "cur_id": None, "pending_restart": 0, "window": 0, "after_window": False,
             "nonstopped": False}
        used_ids: list[str] = []          # run ids of earlier runs, in order
        stop_deadlines: list[int] = []    # tick numbers by which Stopped must have been seen
        accepted_any = False
        aborted = False
        # ---- requests so far: accepted from the user + issued by the method (a Start/Stop/Restart line of the method
        # or of injected code reaching Engine.schedule_execution, the interpreter's only way to command the engine)
        Q = {"Start": 0, "Stop": 0, "Restart": 0}
        # transitions so far: Restarting windows opened, distinct run ids shown, run ends shown (at tick ends);
        # run starts / run ends announced to event listeners (on_start / on_stop)
        T = {"windows": 0, "ids": 0, "ends": 0, "ev_starts": 0, "ev_stops": 0, "cycles_done": 0,
             "id_base": 0, "r_base": 0, "fresh_stop": False, "q_at_tick_end": 0, "qr_at_tick_end": 0}
        orig_sched = rig.e.schedule_execution

        def _sched(name, arguments="", instance_id=None, _orig=orig_sched):
            if name in Q:
                Q[name] += 1
                res.count("method_issued_" + name)
            return _orig(name=name, arguments=arguments, instance_id=instance_id)
        rig.e.schedule_execution = _sched  # type: ignore

        from openpectus.lang.exec.events import EventListener

        class _RunEvents(EventListener):
            def on_start(self, run_id):
                T["ev_starts"] += 1

            def on_stop(self):
                super().on_stop()
                T["ev_stops"] += 1
        rig.e.emitter.add_listener(_RunEvents())

        def reported():
            st = str(rig.e.tags["System State"].get_value())
            cs = mb.create_control_state_msg().control_state
            return st, cs

        def after_tick():
            st, cs = reported()
            rid = rig.e.tags["Run Id"].get_value()
            hist.append((rig.k, st, int(cs.is_running), int(cs.is_paused), int(cs.is_holding)))
            res.count("states_seen_" + st)
            if cs.is_running and cs.is_paused and cs.is_holding:
                res.count("paused_and_holding_ticks")
            # ---- which run is shown: requests known when the tick that first showed this Run Id began (requests made
            # in the gap before that tick are excluded, i.e. they count as made during this run)
            empty = rid in (None, "")
            old_base = (T["id_base"], T["r_base"])
            if not empty and rid != S["cur_id"]:
                T["id_base"], T["r_base"] = T["q_at_tick_end"], T["qr_at_tick_end"]
            # ---- rule 1: agreement / Restarting window
            res.count("agree_checks")
            if st == "Restarting":
                if S["window"] == 0:
                    res.count("restart_windows")
                    T["windows"] += 1
                    # rule 1b: a Restarting window needs a Restart requested during the run that is being restarted
                    res.count("restart_window_justification_checks")
                    if not empty and Q["Restart"] <= T["r_base"]:
                        viol.append(("C06.restarting_without_restart_request_in_this_run",
                                     f"tick {rig.k}: System State Restarting, but no Restart was accepted from the user or "
                                     f"issued by the method since the run shown ({rid!r}) began"))
                    if S["pending_restart"] <= 0 and not method_restarts:
                        viol.append(("C06.restarting_without_restart", f"tick {rig.k}: System State Restarting but no "
                                     "Restart was accepted from the user or issued by the method so far"))
                    elif rig.e.registry.get_running_command("Restart") is None:
                        viol.append(("C06.restarting_without_restart", f"tick {rig.k}: System State Restarting but no "
                                     "Restart command is in progress"))
                S["window"] += 1
                if S["window"] > 3:
                    viol.append(("C06.restarting_window_too_long",
                                 f"tick {rig.k}: Restarting for {S['window']} tick ends"))
            else:
                exp = derived_state(cs)
                if st != exp:
                    flags = f"running={cs.is_running} paused={cs.is_paused} holding={cs.is_holding}"
                    viol.append((f"C06.tag_{st}_but_control_state_{exp}",
                                 f"tick {rig.k}: System State tag '{st}' but control state ({flags}) means '{exp}'"))
                if S["window"] > 0:
                    if st not in ("Stopped", "Running"):
                        viol.append(("C06.restart_window_ends_in_other_state",
                                     f"tick {rig.k}: Restarting window followed by '{st}'"))
                    S["after_window"] = True
                    S["window"] = 0
                else:
                    # NB: S["pending_restart"] never forgets a Restart request; the request budget and the per-run
                    # clauses (rules 1b, 3b, 4) are what ties a window to a request of its own. A Restart interrupted
                    # by a Stop that survives in CommandManager.restart_request_pending and restarts the *next* run
                    # (unchanged tree) is caught by rule 1b and named by _interrupted_restart_resumed
                    S["after_window"] = False
            # ---- rule 3: run id
            res.count("runid_checks")
            if st == "Stopped" and not empty:
                viol.append(("C06.run_id_set_while_stopped", f"tick {rig.k}: Stopped but Run Id = {rid!r}"))
            if st != "Stopped" and empty:
                viol.append(("C06.run_id_empty_while_active", f"tick {rig.k}: state {st} but Run Id empty"))
            if S["cur_id"] is not None and rid != S["cur_id"]:
                used_ids.append(S["cur_id"])
                T["ends"] += 1
                T["cycles_done"] += 1
                # ---- rule 3b: the Run Id shown at the last tick end is gone (cleared or replaced): some Stop or
                # Restart must have been requested since that run began
                res.count("run_end_justification_checks")
                if Q["Stop"] + Q["Restart"] <= old_base[0]:
                    viol.append(("C06.run_ended_without_stop_or_restart_request",
                                 f"tick {rig.k}: Run Id {S['cur_id']!r} -> {rid!r} although no Stop or Restart was "
                                 "accepted from the user or issued by the method since that run began"))
            if not empty and rid != S["cur_id"]:
                if rid in used_ids:
                    viol.append(("C06.run_id_reused", f"tick {rig.k}: Run Id {rid!r} was used by an earlier run"))
                res.count("new_run_ids")
                T["ids"] += 1
                if T["cycles_done"]:
                    res.count("runs_after_an_earlier_cycle")
            S["cur_id"] = None if empty else rid
            # ---- rule 4: every transition is paid for by a request of its own (counting clauses, prefix-closed):
            # Restarting windows <= Restart requests; runs (distinct ids shown / on_start events) <= Start + Restart
            # requests; run ends (ids gone / on_stop events) <= Stop + Restart requests. Requests = accepted from the
            # user + issued by the method so far. Sound because no request does more than one of each.
            res.count("request_budget_checks")
            if T["windows"]:
                res.count("restart_budget_checks_with_window")
            if T["windows"] > Q["Restart"]:
                viol.append(("C06.more_restarting_windows_than_restart_requests",
                             f"tick {rig.k}: {T['windows']} Restarting windows so far but only {Q['Restart']} Restart "
                             "requests were accepted from the user or issued by the method"))
            if max(T["ids"], T["ev_starts"]) > Q["Start"] + Q["Restart"]:
                viol.append(("C06.more_runs_than_start_and_restart_requests",
                             f"tick {rig.k}: {T['ids']} distinct run ids shown / {T['ev_starts']} run starts announced "
                             f"so far but only {Q['Start']} Start + {Q['Restart']} Restart requests were accepted from "
                             "the user or issued by the method"))
            if max(T["ends"], T["ev_stops"]) > Q["Stop"] + Q["Restart"]:
                viol.append(("C06.more_run_ends_than_stop_and_restart_requests",
                             f"tick {rig.k}: {T['ends']} run ids gone / {T['ev_stops']} run ends announced so far but "
                             f"only {Q['Stop']} Stop + {Q['Restart']} Restart requests were accepted from the user or "
                             "issued by the method"))
            # which tick gap is this: the one in which the completion of a Stop/Restart has just been reported?
            if S.pop("sched_start", False):
                res.count("ticks_judged_after_scheduled_Start_while_run_active")
            T["fresh_stop"] = (st == "Stopped" and S["prev"] != "Stopped")
            T["q_at_tick_end"], T["qr_at_tick_end"] = Q["Stop"] + Q["Restart"], Q["Restart"]
            if st != "Stopped":
                S["nonstopped"] = True
            # ---- bounded progress of an accepted Stop
            if st == "Stopped":
                if stop_deadlines:
                    res.count("stop_progress_checks", len(stop_deadlines))
                stop_deadlines.clear()
            else:
                for d in stop_deadlines:
                    if rig.k >= d:
                        if S["pending_restart"] > 0 or method_restarts:
                            # a Restart requested before/after the Stop may cancel it (cancel_all_commands) and run
                            # its own stop and start phases; which of the two wins is not stated by the property
                            res.count("stop_progress_void_restart_requested")
                            continue
                        viol.append(("C06.accepted_stop_not_stopped_in_4_ticks",
                                     f"tick {rig.k}: user Stop accepted before tick {d - 3} but no tick end has shown "
                                     "Stopped since"))
                stop_deadlines[:] = [d for d in stop_deadlines if rig.k < d]
            S["prev"] = st

        steps = [(s, bool(m)) for s, m in zip(seq, mask)] + [("tick", True)] * SETTLE
        for sym, tick_after in steps:
            st, cs = reported()
            if sym.startswith("u:"):
                cmd = sym[2:]
                ok = rig.user(cmd)
                v = valid(cmd, st, cs.is_paused, cs.is_holding)
                res.count("gating_accepted" if ok else "gating_rejected")
                hist.append((rig.k, "req", cmd, ok))
                if ok != v:
                    flags = f"paused={cs.is_paused} holding={cs.is_holding}"
                    what = "accepted_while_invalid" if ok else "rejected_while_valid"
                    viol.append((f"C06.{cmd}_{what}",
                                 f"before tick {rig.k + 1}: user {cmd} {'accepted' if ok else 'rejected'} in reported "
                                 f"state '{st}' ({flags}) where it is {'valid' if v else 'not valid'}"))
                    break
                if ok:
                    accepted_any = True
                    if cmd in Q:
                        Q[cmd] += 1
                    if cmd == "Start" and T["cycles_done"]:
                        res.count("later_cycle_starts")
                        if T["fresh_stop"]:
                            res.count("later_cycle_starts_in_completion_gap")
                            if T["windows"]:
                                res.count("later_cycle_starts_in_completion_gap_after_a_restart")
                    if cmd == "Restart":
                        S["pending_restart"] += 1
                    if cmd == "Stop":
                        stop_deadlines.append(rig.k + 4)
            elif sym.startswith("i:"):
                code = sym[2:]
                try:
                    rig.e.inject_code(code)
                    res.count("injections")
                    res.count("injected_" + code.split(":")[0])
                    if code == "Restart":
                        S["pending_restart"] += 1
                except Exception as ex:  # inject_code put the engine into its error state; not a C06 input any more
                    res.count("inject_raised")
                    res.notes.append(f"inject_code({code!r}) raised {type(ex).__name__}")
                    aborted = True
                    break
                hist.append((rig.k, "inj", code))
            elif sym.startswith("s:"):
                # a control command scheduled on the interpreter's entry (no user gating), while a run is active
                cmd = sym[2:]
                if st in ("Stopped", "Restarting"):
                    res.count("scheduled_skipped_no_run_active")
                else:
                    rig.e.schedule_execution(cmd)          # the counting wrapper above: a request of the budget
                    res.count(f"scheduled_{cmd}_while_run_active")
                    S["sched_start"] = cmd == "Start"
                    hist.append((rig.k, "sched", cmd))
            elif sym == RELOAD:
                # the user loads the (same) method again between two runs: another interpreter reset
                if st == "Stopped":
                    rig.e.set_method(R.to_method(method))
                    res.count("reloads_while_stopped")
                    hist.append((rig.k, "reload"))
                else:
                    res.count("reloads_skipped_not_stopped")
            if tick_after or sym == "tick":
                rig.tick(catch=True)
                if rig.tick_exc:
                    res.count("tick_exceptions")
                    res.notes.append("Engine.tick raised: " + rig.tick_exc[0][1][:120])
                    aborted = True
                    break
                after_tick()
                if viol:
                    # the state machine is broken from here on; later alarms of this case would be consequences
                    late = _ran_after_run_end(execlog, rig.k)
                    if late is not None:
                        ender, name = late
                        viol[:] = [("C06.command_executes_after_run_ended_in_same_tick",
                                    m + f" [in this tick {ender} ended the run and the request {name} behind it in the "
                                    "executing list still ran on the stopped engine]") for (_k, m) in viol]
                    else:
                        t1 = _interrupted_restart_resumed(execlog, rig.k)
                        if t1 is not None and all(k in _LOCAL_KEYS for (k, _m) in viol):
                            viol[:] = [("C06.restart_interrupted_by_stop_resumes_in_next_run",
                                        m + f" [the Restart request acting here first executed at tick {t1}, was "
                                        "interrupted / overtaken by a Stop that ended that run before the Restart had "
                                        "stopped it itself, and was handed on to the later CommandManagers]")
                                       for (_k, m) in viol]
                    break
        if aborted:
            res.count("cases_aborted")
        if viol:
            res.count("cases_cut_at_first_alarm")
        key = None
        if accepted_any and S["nonstopped"] and not aborted:
            key = {"m": method, "s": seq, "k": case.get("mask")}
        res.count("cases_" + kind)
        res.case(key, sample={"method": method, "seq": seq, "mask": case.get("mask"),
                              "states": [h[1] for h in hist if len(h) == 5]})
    finally:
        _EXEC_SINK[0] = None
        rig.close()
    seen = set()
    for mech, msg in viol:
        if (mech, msg) in seen:
            continue
        seen.add((mech, msg))
        res.violation(mech, msg + " | history " + str(hist[-16:]), case)


def run_shard(spec):
    res = Result()
    for kind, case in cases_for_shard(spec):
        check_case(case, res, kind)
    n, L = len(ALPHA), spec["L"]
    res.exhaustive_parts.append(f"all {n}^{L} = {n ** L} sequences of {L} symbols over the 14-symbol alphabet "
                                f"(a tick after every symbol, {SETTLE} settle ticks), base method")
    res.exhaustive_parts.append(f"all {n}^{L - 1} sequences of {L - 1} symbols x all {2 ** (L - 1) - 1} other tick masks")
    res.exhaustive_parts.append(f"all {n}^{L - 1} sequences of {L - 1} symbols on each of {len(METHODS)} methods that "
                                "issue Stop/Restart/Pause/Hold themselves")
    n2 = len(ALPHA2)
    res.exhaustive_parts.append(f"interpreter path: first Start, then all {n2}^{L - 1} - {n}^{L - 1} sequences of {L - 1} "
                                f"symbols over the {n2}-symbol alphabet (+ {NEW}) with at least one added symbol")
    if spec["shard"] == 0:
        registry_covered(res)
    nst = len(CYCLE_STEPS)
    res.exhaustive_parts.append(f"lifetimes, base method: first Start followed by 0..3 ticks x all {nst}^{L - 1} sequences "
                                f"of {L - 1} (cycle command, gap) steps, gap = nominal completion -1 .. +2 ticks")
    res.exhaustive_parts.append(f"lifetimes, each of {len(METHODS)} self-commanding methods: first Start followed by "
                                f"1..{METHOD_FIRST_GAPS[-1]} ticks x all {nst}^{L - 2} sequences of {L - 2} steps")
    return res


def replay(case):
    res = Result()
    check_case(case, res, "replay")
    return res
