"""C06 - Run state and System State always agree; control commands gated.

Rule-table oracle over the *reported* state (System State tag, control-state message built by the real
EngineMessageBuilder, Run Id tag, result of user requests). Deliberately no prediction of post-states: commands are
queued, Stop takes two ticks, a command accepted while a Stop is in flight legitimately ends in Stopped
(see DESIGN.md C06 and section 8)."""
from __future__ import annotations

import random

from opv.core import Result

ID = "C06"
LEVEL = "exploration"
TECHNIQUE = ("runtime monitoring: rule table over reported state (System State tag vs control-state message, "
             "request acceptance vs validity in the reported state, Run Id discipline) after every tick of "
             "enumerated command sequences")
RULE = ("alphabet of 14 symbols = 7 user control commands (Start Stop Pause Unpause Hold Unhold Restart) + bare tick + "
        "6 method-issued commands injected into the running method (Pause, Pause: 0.2s, Hold, Hold: 0.2s, Stop, "
        "Restart). ENUMERATED: every sequence of exactly L symbols, each symbol followed by one tick, from the stopped "
        "state of a fresh engine, followed by 6 settle ticks (shorter sequences are the ones padded with tick symbols): "
        "L=4 quick, L=5 thorough; every sequence of L-1 symbols under every tick mask (which symbols are followed by "
        "a tick, so that several requests land in one tick); every sequence of L-1 symbols on 5 methods that issue "
        "Stop / Restart / Pause / Hold: 0.3s / timed Pause themselves. SAMPLED: seeded random sequences of length "
        "6-12 with random masks and methods. distinct = the (method, sequence, mask) triple; non-trivial = at least "
        "one request accepted and a state other than Stopped observed")
ASSUMPTIONS = [
    "'state at the time of the request' = System State tag and control-state message read immediately before the "
    "request is made (between ticks); the state during the tick in which a command executes is not observed",
    "validity table: Start iff Stopped; Stop/Restart iff active (not Stopped, not Restarting); Pause iff active and "
    "not paused; Unpause iff active and paused; Hold iff active and not holding; Unhold iff active and holding",
    "Restarting is legitimate only while a Restart command is in progress (resident in the engine's command registry) "
    "after a Restart was accepted from the user or issued by the method at some earlier point of the history; the "
    "window lasts at most 3 tick ends and is followed by Stopped or Running",
    "bounded progress (reading of 'Stop is valid/accepted'): after an accepted user Stop some tick end within the "
    "next 4 ticks shows Stopped; the obligation is void (counted) when a Restart has been requested anywhere in the "
    "history, because a Restart cancels a Stop in flight and the property does not say which wins",
    "method-issued commands are issued with Engine.inject_code (same interpreter path as a method line) or by method "
    "lines; requests are applied between ticks, single-threaded",
    "trusted base: engine rig (virtual clock, recording hardware), real EngineMessageBuilder.create_control_state_msg",
]
REQUIRED = {"agree_checks": 300000, "gating_accepted": 10000, "gating_rejected": 50000, "runid_checks": 300000,
            "restart_windows": 1000, "stop_progress_checks": 800, "states_seen_Paused": 8000, "states_seen_Holding": 8000,
            "paused_and_holding_ticks": 1500, "new_run_ids": 8000}
EXHAUSTIVE_ALL = False

USER = ["Start", "Stop", "Pause", "Unpause", "Hold", "Unhold", "Restart"]
INJ = ["Pause", "Pause: 0.2s", "Hold", "Hold: 0.2s", "Stop", "Restart"]
ALPHA = ["u:" + c for c in USER] + ["tick"] + ["i:" + c for c in INJ]
BASE_METHOD = "Base: s\nWait: 100s\n"
METHODS = [
    "Base: s\nWait: 0.2s\nStop\n",
    "Base: s\nWait: 0.2s\nRestart\n",
    "Base: s\nMark: a\nPause\nMark: b\nHold: 0.3s\nMark: c\nWait: 100s\n",
    "Base: s\nPause: 0.3s\nHold\nWait: 0.2s\nStop\n",
    "Base: s\nHold: 0.3s\nWait: 0.1s\nRestart\n",
]
SETTLE = 6


# ---------------------------------------------------------------------------------------------------------------
def plan(tier, seed):
    L = 4 if tier == "quick" else 5
    shards = 16 if tier == "quick" else 48
    n_rand = 1600 if tier == "quick" else 24000
    specs = []
    for i in range(shards):
        specs.append({"seed": seed * 1000003 + i, "L": L, "shard": i, "of": shards, "n_rand": n_rand // shards})
    return specs


def _seq_from_index(idx: int, L: int) -> list[str]:
    out = []
    for _ in range(L):
        out.append(ALPHA[idx % len(ALPHA)])
        idx //= len(ALPHA)
    return out[::-1]


def cases_for_shard(spec):
    """Yields (kind, case). The enumerated families are split over shards by index modulo."""
    L, sh, of = spec["L"], spec["shard"], spec["of"]
    n = len(ALPHA)
    # family A: all sequences of exactly L symbols, a tick after each symbol
    for idx in range(sh, n ** L, of):
        yield "A", {"method": BASE_METHOD, "seq": _seq_from_index(idx, L), "mask": None}
    # family B: all sequences of L-1 symbols x all tick masks except the all-ones mask (that one is family A)
    Lb = L - 1
    k = 0
    for idx in range(n ** Lb):
        seq = None
        for m in range(2 ** Lb - 1):
            if k % of == sh:
                if seq is None:
                    seq = _seq_from_index(idx, Lb)
                yield "B", {"method": BASE_METHOD, "seq": seq, "mask": [(m >> j) & 1 for j in range(Lb)]}
            k += 1
    # family C: methods that issue commands themselves x all sequences of L-1 symbols
    k = 0
    for mi, meth in enumerate(METHODS):
        for idx in range(n ** Lb):
            if k % of == sh:
                yield "C", {"method": meth, "seq": _seq_from_index(idx, Lb), "mask": None}
            k += 1
    # family R: random longer sequences
    rnd = random.Random(spec["seed"])
    for _ in range(spec["n_rand"]):
        ln = rnd.randint(6, 12)
        # bias towards reaching a run: most sequences start with Start
        seq = [rnd.choice(ALPHA) for _ in range(ln)]
        if rnd.random() < 0.7:
            seq[0] = "u:Start"
        mask = [1 if rnd.random() < 0.75 else 0 for _ in range(ln)]
        meth = BASE_METHOD if rnd.random() < 0.6 else rnd.choice(METHODS)
        yield "R", {"method": meth, "seq": seq, "mask": mask}


# ---------------------------------------------------------------------------------------------------------------
def derived_state(cs) -> str:
    if not cs.is_running:
        return "Stopped"
    if cs.is_paused:
        return "Paused"
    if cs.is_holding:
        return "Holding"
    return "Running"


def valid(cmd: str, st: str, paused: bool, holding: bool) -> bool:
    active = st not in ("Stopped", "Restarting")
    return {"Start": st == "Stopped", "Stop": active, "Restart": active,
            "Pause": active and not paused, "Unpause": active and paused,
            "Hold": active and not holding, "Unhold": active and holding}[cmd]


_EXEC_SINK: list = [None]
_probe_installed = [False]


def _install_exec_probe():
    """Recording wrapper around CommandManager._execute_command (delegates unchanged): which requests executed in a
    tick and whether the run was started before/after each. Only used to *name the mechanism* of an alarm."""
    if _probe_installed[0]:
        return
    _probe_installed[0] = True
    import openpectus.engine.command_manager as CM
    orig = CM.CommandManager._execute_command

    def _execute_command(self, cmd_request):
        sink = _EXEC_SINK[0]
        if sink is None:
            return orig(self, cmd_request)
        rig, log = sink
        before = rig.e._runstate_started
        try:
            return orig(self, cmd_request)
        finally:
            log.append((rig.k, cmd_request.name, str(cmd_request.source), before, rig.e._runstate_started))
    _execute_command.__wrapped__ = orig  # type: ignore
    CM.CommandManager._execute_command = _execute_command  # type: ignore


def _ran_after_run_end(execlog, tick):
    """A request began executing in `tick` on an engine whose run had been ended (started True -> False) by an
    earlier request of the same command-manager pass. Returns (ender, late command) or None."""
    ender = None
    for (k, name, _src, before, after) in execlog:
        if k != tick:
            continue
        if ender is not None and not before and name != "Start":
            return ender, name
        if before and not after:
            ender = name
    return None


def check_case(case, res: Result, kind: str = "?"):
    from opv.rigs import engine_rig as R
    from openpectus.engine.engine_message_builder import EngineMessageBuilder

    seq = case["seq"]
    mask = case.get("mask") or [1] * len(seq)
    method = case["method"]
    method_restarts = "Restart" in method
    rig = R.EngineRig(method, hooks=False)
    viol: list[tuple[str | None, str]] = []
    hist: list = []
    execlog: list[tuple] = []            # (tick, command name, source, started_before, started_after)
    _install_exec_probe()
    _EXEC_SINK[0] = (rig, execlog)
    try:
        mb = EngineMessageBuilder(rig.e, "", False)
        S = {"prev": "Stopped", "cur_id": None, "pending_restart": 0, "window": 0, "after_window": False,
             "nonstopped": False}
        used_ids: list[str] = []          # run ids of earlier runs, in order
        stop_deadlines: list[int] = []    # tick numbers by which Stopped must have been seen
        accepted_any = False
        aborted = False

        def reported():
            st = str(rig.e.tags["System State"].get_value())
            cs = mb.create_control_state_msg().control_state
            return st, cs

        def after_tick():
            st, cs = reported()
            rid = rig.e.tags["Run Id"].get_value()
            hist.append((rig.k, st, int(cs.is_running), int(cs.is_paused), int(cs.is_holding)))
            res.count("states_seen_" + st)
            if cs.is_running and cs.is_paused and cs.is_holding:
                res.count("paused_and_holding_ticks")
            # ---- rule 1: agreement / Restarting window
            res.count("agree_checks")
            if st == "Restarting":
                if S["window"] == 0:
                    res.count("restart_windows")
                    if S["pending_restart"] <= 0 and not method_restarts:
                        viol.append(("C06.restarting_without_restart", f"tick {rig.k}: System State Restarting but no "
                                     "Restart was accepted from the user or issued by the method so far"))
                    elif rig.e.registry.get_running_command("Restart") is None:
                        viol.append(("C06.restarting_without_restart", f"tick {rig.k}: System State Restarting but no "
                                     "Restart command is in progress"))
                S["window"] += 1
                if S["window"] > 3:
                    viol.append(("C06.restarting_window_too_long",
                                 f"tick {rig.k}: Restarting for {S['window']} tick ends"))
            else:
                exp = derived_state(cs)
                if st != exp:
                    flags = f"running={cs.is_running} paused={cs.is_paused} holding={cs.is_holding}"
                    viol.append((f"C06.tag_{st}_but_control_state_{exp}",
                                 f"tick {rig.k}: System State tag '{st}' but control state ({flags}) means '{exp}'"))
                if S["window"] > 0:
                    if st not in ("Stopped", "Running"):
                        viol.append(("C06.restart_window_ends_in_other_state",
                                     f"tick {rig.k}: Restarting window followed by '{st}'"))
                    S["after_window"] = True
                    S["window"] = 0
                else:
                    # NB: Restart requests are never forgotten here. A Restart cancelled by a Stop survives in
                    # CommandManager.restart_request_pending and restarts the *next* run (seen on the unchanged tree;
                    # that is C10's business - the tag then truthfully says Restarting during a real restart)
                    S["after_window"] = False
            # ---- rule 3: run id
            res.count("runid_checks")
            empty = rid in (None, "")
            if st == "Stopped" and not empty:
                viol.append(("C06.run_id_set_while_stopped", f"tick {rig.k}: Stopped but Run Id = {rid!r}"))
            if st != "Stopped" and empty:
                viol.append(("C06.run_id_empty_while_active", f"tick {rig.k}: state {st} but Run Id empty"))
            if not empty and rid != S["cur_id"]:
                if rid in used_ids:
                    viol.append(("C06.run_id_reused", f"tick {rig.k}: Run Id {rid!r} was used by an earlier run"))
                res.count("new_run_ids")
            if S["cur_id"] is not None and rid != S["cur_id"]:
                used_ids.append(S["cur_id"])
            S["cur_id"] = None if empty else rid
            if st != "Stopped":
                S["nonstopped"] = True
            # ---- bounded progress of an accepted Stop
            if st == "Stopped":
                if stop_deadlines:
                    res.count("stop_progress_checks", len(stop_deadlines))
                stop_deadlines.clear()
            else:
                for d in stop_deadlines:
                    if rig.k >= d:
                        if S["pending_restart"] > 0 or method_restarts:
                            # a Restart requested before/after the Stop may cancel it (cancel_all_commands) and run
                            # its own stop and start phases; which of the two wins is not stated by the property
                            res.count("stop_progress_void_restart_requested")
                            continue
                        viol.append(("C06.accepted_stop_not_stopped_in_4_ticks",
                                     f"tick {rig.k}: user Stop accepted before tick {d - 3} but no tick end has shown "
                                     "Stopped since"))
                stop_deadlines[:] = [d for d in stop_deadlines if rig.k < d]
            S["prev"] = st

        steps = [(s, bool(m)) for s, m in zip(seq, mask)] + [("tick", True)] * SETTLE
        for sym, tick_after in steps:
            st, cs = reported()
            if sym.startswith("u:"):
                cmd = sym[2:]
                ok = rig.user(cmd)
                v = valid(cmd, st, cs.is_paused, cs.is_holding)
                res.count("gating_accepted" if ok else "gating_rejected")
                hist.append((rig.k, "req", cmd, ok))
                if ok != v:
                    flags = f"paused={cs.is_paused} holding={cs.is_holding}"
                    what = "accepted_while_invalid" if ok else "rejected_while_valid"
                    viol.append((f"C06.{cmd}_{what}",
                                 f"before tick {rig.k + 1}: user {cmd} {'accepted' if ok else 'rejected'} in reported "
                                 f"state '{st}' ({flags}) where it is {'valid' if v else 'not valid'}"))
                    break
                if ok:
                    accepted_any = True
                    if cmd == "Restart":
                        S["pending_restart"] += 1
                    if cmd == "Stop":
                        stop_deadlines.append(rig.k + 4)
            elif sym.startswith("i:"):
                code = sym[2:]
                try:
                    rig.e.inject_code(code)
                    res.count("injections")
                    if code == "Restart":
                        S["pending_restart"] += 1
                except Exception as ex:  # inject_code put the engine into its error state; not a C06 input any more
                    res.count("inject_raised")
                    res.notes.append(f"inject_code({code!r}) raised {type(ex).__name__}")
                    aborted = True
                    break
                hist.append((rig.k, "inj", code))
            if tick_after or sym == "tick":
                rig.tick(catch=True)
                if rig.tick_exc:
                    res.count("tick_exceptions")
                    res.notes.append("Engine.tick raised: " + rig.tick_exc[0][1][:120])
                    aborted = True
                    break
                after_tick()
                if viol:
                    # the state machine is broken from here on; later alarms of this case would be consequences
                    late = _ran_after_run_end(execlog, rig.k)
                    if late is not None:
                        ender, name = late
                        viol[:] = [("C06.command_executes_after_run_ended_in_same_tick",
                                    m + f" [in this tick {ender} ended the run and the request {name} behind it in the "
                                    "executing list still ran on the stopped engine]") for (_k, m) in viol]
                    break
        if aborted:
            res.count("cases_aborted")
        if viol:
            res.count("cases_cut_at_first_alarm")
        key = None
        if accepted_any and S["nonstopped"] and not aborted:
            key = {"m": method, "s": seq, "k": case.get("mask")}
        res.count("cases_" + kind)
        res.case(key, sample={"method": method, "seq": seq, "mask": case.get("mask"),
                              "states": [h[1] for h in hist if len(h) == 5]})
    finally:
        _EXEC_SINK[0] = None
        rig.close()
    seen = set()
    for mech, msg in viol:
        if (mech, msg) in seen:
            continue
        seen.add((mech, msg))
        res.violation(mech, msg + " | history " + str(hist[-16:]), case)


def run_shard(spec):
    res = Result()
    for kind, case in cases_for_shard(spec):
        check_case(case, res, kind)
    n, L = len(ALPHA), spec["L"]
    res.exhaustive_parts.append(f"all {n}^{L} = {n ** L} sequences of {L} symbols over the 14-symbol alphabet "
                                f"(a tick after every symbol, {SETTLE} settle ticks), base method")
    res.exhaustive_parts.append(f"all {n}^{L - 1} sequences of {L - 1} symbols x all {2 ** (L - 1) - 1} other tick masks")
    res.exhaustive_parts.append(f"all {n}^{L - 1} sequences of {L - 1} symbols on each of {len(METHODS)} methods that "
                                "issue Stop/Restart/Pause/Hold themselves")
    return res


def replay(case):
    res = Result()
    check_case(case, res, "replay")
    return res
