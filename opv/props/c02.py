"""C02 - Method instructions run once each, in source order.

Trace invariant over node-state descriptor events of the real interpreter (see DESIGN.md C02)."""
from __future__ import annotations

import random

from opv.core import Result
from opv.gen_pcode import Gen, trajectory, shape_hash

ID = "C02"
LEVEL = "exploration"
TECHNIQUE = "runtime monitoring: trace invariant over AST-node state transitions of generated runs"
RULE = ("seeded P-code generator (Block/End block(s), Watch, Alarm, Macro/Call macro, Wait, thresholds, Mark, UOD "
        "commands of 1-5 ticks, blank/comment lines) x scripted FT01 trajectory; run to quiescence on the virtual "
        "clock. distinct = shape hash of the method text (labels/numbers bucketed); non-trivial = nesting depth >= 2 "
        "or at least one Watch/Alarm/macro call, and at least 5 instruction starts observed")
ASSUMPTIONS = [
    "'previous instruction completed' is read as completed for synchronous instructions and as passed (child_index "
    "advanced) for Watch/Alarm registration and UOD/engine commands, which are asynchronous by design",
    "only end-of-method trailing whitespace is asserted as never passed",
    "observation through data descriptors installed on openpectus.lang.model.ast classes from the harness",
]
REQUIRED = {"start_events": 200, "order_checks": 100, "ws_checks": 5, "append_checks": 3,
            "macro_invocation_first_line_checks": 100, "cut_macro_cases": 60, "cut_macro_calls_cut_by_end_block": 20,
            "cut_macro_calls_cut_with_their_handler": 15}

SYNC = {"MarkNode", "BlockNode", "CallMacroNode", "InterpreterCommandNode", "EndBlockNode", "EndBlocksNode",
        "SimulateNode", "SimulateOffNode", "NotifyNode", "BatchNode", "BlankNode", "CommentNode"}
REPEATABLE = ("AlarmNode", "MacroNode")


def plan(tier, seed):
    n = 3000 if tier == "quick" else 60000
    shards = 16 if tier == "quick" else 64
    per = n // shards
    return [{"seed": seed * 1000003 + i, "n": per, "max_depth": 3 if tier == "quick" else 4} for i in range(shards)]


def gen_cut_macro_case(rnd: random.Random):
    """Directed stratum: a macro call inside a Block is cut short by `End block` (from a Watch at root level, driven by
    the run counter or by FT01) and the same macro is called again afterwards, sequentially. Every invocation must
    start its body at the first line."""
    n = rnd.randint(3, 7)
    body = [f"Mark: q{i}" for i in range(1, n + 1)]
    if rnd.random() < 0.4:
        # variant: the call is made by a Watch body inside the Block; the Block's own `End block` (main path) drops
        # that handler while it is in the middle of the macro body
        for _ in range(rnd.randint(1, 3)):
            body.insert(rnd.randint(1, len(body)), f"Wait: {rnd.choice(['0.2', '0.3', '0.5'])}s")
        lines = ["Base: s", "Macro: M0"] + ["    " + b for b in body]
        lines += ["Block: bq1", "    Watch: Run Counter >= 0", "        Call macro: M0"]
        if rnd.random() < 0.5:
            lines += ["        Call macro: M0"]
        lines += [f"    Wait: {rnd.choice(['0.2', '0.3', '0.4', '0.6'])}s", "    End block"]
        lines += ["Mark: c1"]
        if rnd.random() < 0.3:
            lines += ["Wait: 0.2s"]
        lines += ["Call macro: M0", "Mark: c2"]
        if rnd.random() < 0.4:
            lines += ["Call macro: M0", "Mark: c3"]
        return {"text": "\n".join(lines) + "\n", "traj": [0.0] * 400, "append": False, "stratum": "cut_macro",
                "variant": "handler"}
    use_counter = rnd.random() < 0.6
    if use_counter:
        body.insert(rnd.randint(1, n - 1), "Increment run counter")
    for _ in range(rnd.randint(0, 2)):
        body.insert(rnd.randint(1, len(body)), f"Wait: {rnd.choice(['0.2', '0.3', '0.5'])}s")
    lines = ["Base: s", "Macro: M0"] + ["    " + b for b in body]
    cond = "Run Counter > 0" if use_counter else f"FT01 > {rnd.randint(1, 4)} L/h"
    lines += [f"Watch: {cond}", "    End block"]
    lines += ["Block: bq1", "    Mark: b1"]
    if rnd.random() < 0.3:
        lines += ["    Short"]
    lines += ["    Call macro: M0", "    Mark: b2", "    End block"]
    lines += ["Mark: c1"]
    if rnd.random() < 0.3:
        lines += ["Wait: 0.2s"]
    lines += ["Call macro: M0", "Mark: c2"]
    if rnd.random() < 0.4:
        lines += ["Call macro: M0", "Mark: c3"]
    text = "\n".join(lines) + "\n"
    at = rnd.randint(10, 30)
    traj = [0.0 if i < at else 6.0 for i in range(400)] if not use_counter else [0.0] * 400
    return {"text": text, "traj": traj, "append": False, "stratum": "cut_macro"}


def gen_case(rnd: random.Random, max_depth=3):
    if rnd.random() < 0.08:
        return gen_cut_macro_case(rnd)
    g = Gen(rnd, allow=("mark", "uod", "wait", "block", "watch", "alarm", "macro", "thr", "blank", "base", "sim",
                        "counter", "info", "pausehold"),
            max_depth=max_depth, thr_values=("0.2", "0.5", "1", "0", "0.3"))
    text = g.program(rnd.randint(3, 9))
    # trailing whitespace at end of method in ~40% of the cases
    if rnd.random() < 0.4:
        text += "".join(rnd.choice(["\n", "# tail\n", "    \n"]) for _ in range(rnd.randint(1, 3)))
    traj = trajectory(rnd, 400)
    return {"text": text, "traj": traj, "append": rnd.random() < 0.25}


def check_case(case, res: Result):
    from opv.rigs import engine_rig as R
    import openpectus.lang.model.ast as p

    text = case["text"]
    rig = R.EngineRig(text)
    viol = []
    try:
        rig.start()
        last_ev = 0
        k = 0
        while k < 400:
            rig.hw.inputs["FT01"] = case["traj"][k]
            n0 = len(R.TRACE)
            rig.tick()
            k += 1
            if len(R.TRACE) != n0 or rig.cmdlog and rig.cmdlog[-1][0] == rig.k:
                last_ev = k
            if k - last_ev >= 25 or rig.errors:
                break
        trace = list(R.TRACE)
        prog = rig.program()
        if case.get("stratum") == "cut_macro":
            res.count("cut_macro_cases")
            mk = rig.marks()
            n_body = sum(1 for ln in text.split("\n") if ln.startswith("    Mark: q"))
            if "c1" in mk and sum(1 for m_ in mk[:mk.index("c1")] if m_.startswith("q")) < n_body:
                res.count("cut_macro_calls_cut_by_end_block")   # first call abandoned mid-body, method went on
                if case.get("variant") == "handler":
                    res.count("cut_macro_calls_cut_with_their_handler")
        nodes = {id(n): n for n in prog.get_all_nodes()}
        errored = bool(rig.errors)
        err_tick = rig.errors[0][0] if errored else 10 ** 9

        def in_repeatable(n):
            return isinstance(n, (p.AlarmNode,)) or any(isinstance(a, (p.AlarmNode, p.MacroNode)) for a in n.parents)

        macro_defs: dict[str, list] = {}
        for nn in prog.get_all_nodes():
            if isinstance(nn, p.MacroNode):
                macro_defs.setdefault(nn.macro_name, []).append(nn)

        def taint_scope(r):
            """Everything that can be affected by resetting r while it is in progress: the outermost repeatable scope
            (Alarm / Macro) around r, plus - transitively - the bodies of the macros called from inside it."""
            chain = [r] + list(r.parents)
            outer = [a for a in chain if isinstance(a, (p.AlarmNode, p.MacroNode))]
            top = outer[-1] if outer else r
            out, todo = set(), [top]
            while todo:
                t = todo.pop()
                sub = [t] + (t.get_child_nodes(recursive=True) if isinstance(t, p.NodeWithChildren) else [])
                for d in sub:
                    if id(d) in out:
                        continue
                    out.add(id(d))
                    if isinstance(d, p.CallMacroNode):
                        todo.extend(m for m in macro_defs.get(d.macro_name, []) if id(m) not in out)
            return out

        tainted: set[int] = set()
        st: dict[int, dict] = {}

        def state(pid):
            return st.setdefault(pid, {"started": False, "completed": False, "failed": False})

        def V(mech, msg, n, sib=None):
            mac = next((a for a in [n] + list(n.parents) if isinstance(a, p.MacroNode)), None)
            if id(n) in tainted or (sib is not None and id(sib) in tainted):
                # root cause seen earlier in this run: an Alarm re-arm / repeated macro call reset body nodes that
                # were still in progress (nested interrupt, stale handler, multi-tick command)
                mech = "C02.scope_reset_while_line_in_progress"
            elif mac is not None and max_active.get(mac.macro_name, 0) >= 2:
                # two calls of one macro in progress at once (main path + interrupt): both walk the same body nodes
                mech = "C02.concurrent_calls_share_macro_body"
            viol.append((mech, msg))

        def short_wait(n):
            if isinstance(n, p.InterpreterCommandNode) and n.instruction_name == "Wait":
                import re
                m = re.match(r"\s*([0-9.]+)\s*s\s*$", n.arguments or "")
                return bool(m) and float(m.group(1)) < 0.1
            return False
        active_calls: dict[str, int] = {}
        ever_started: set[int] = set()
        max_active: dict[str, int] = {}
        ended_blocks: set[int] = set()
        registered: dict[int, bool] = {}
        lock_ok: dict[int, bool] = {}
        pending_first: dict[str, tuple] = {}

        # ---- single pass over the trace with incrementally maintained node state
        last_started_idx: dict[int, int] = {}
        started_nodes = 0
        pending_abort: list = []

        def abandon_calls(w):
            # the handler of Watch/Alarm w was unregistered in an earlier tick. Calls it still has in progress (End
            # block aborted it mid-body) will never complete: they are no longer "in progress", transitively through
            # the called bodies
            todo = [d for d in w.get_child_nodes(recursive=True) if isinstance(d, p.CallMacroNode)]
            while todo:
                d = todo.pop()
                sd = state(id(d))
                if sd["started"] and not sd["completed"] and not sd["failed"] and not sd.get("abandoned"):
                    sd["abandoned"] = True
                    res.count("macro_calls_abandoned_by_handler_abort")
                    active_calls[d.macro_name] = active_calls.get(d.macro_name, 0) - 1
                    if active_calls[d.macro_name] <= 0:
                        for m_ in macro_defs.get(d.macro_name, []):
                            todo.extend(c_ for c_ in m_.get_child_nodes(recursive=True)
                                        if isinstance(c_, p.CallMacroNode))

        for ev in trace:
            tick, field, nid, cls, old, new, pid = ev
            if tick > err_tick:
                break
            while pending_abort and pending_abort[0][0] < tick:
                w_tick, w = pending_abort.pop(0)
                if not registered.get(id(w), False):
                    abandon_calls(w)
            n = nodes.get(pid)
            if n is None:
                continue
            s_n = state(pid)
            if isinstance(n, (p.AlarmNode, p.MacroNode)) and (
                    (field in ("started", "completed") and old is True and new is False) or
                    (field == "child_index" and new == 0 and old)):
                # the repeatable scope n is being reset (its own fields change before those of its descendants): if a
                # nested Watch/Alarm still has its interrupt registered, or a macro defined inside n has a call in
                # progress, whatever executes those nodes survives the reset of the scope
                for dnode in n.get_child_nodes(recursive=True):
                    if (isinstance(dnode, p.NodeWithCondition) and registered.get(id(dnode), False)) or \
                            (isinstance(dnode, p.MacroNode) and active_calls.get(dnode.macro_name, 0) >= 1):
                        res.count("scope_resets_with_live_nested_executor")
                        tainted |= taint_scope(n)
                        break
            if field == "restarted":
                res.count("restart_events")
                if not isinstance(n, (p.WatchNode, p.AlarmNode, p.WhitespaceNode, p.ProgramNode)):
                    V("C02.second_visit_of_started_node", f"node {nid} {cls} visited again while started (tick {tick})", n)
            elif field == "interrupt_registered":
                registered[pid] = bool(new)
                if not new and isinstance(n, p.NodeWithChildren):
                    pending_abort.append((tick, n))      # judged once the tick is over, see abandon_calls
            elif field == "lock_acquired":
                lock_ok[pid] = bool(new)
            elif field == "block_ended" and new is True:
                ended_blocks.add(pid)
            elif field == "block_ended" and new is False:
                ended_blocks.discard(pid)
            elif field in ("completed", "failed"):
                if field == "completed" and new is True and isinstance(n, p.CallMacroNode):
                    if s_n.get("abandoned"):
                        s_n["abandoned"] = False    # completed after all (already counted as no longer in progress)
                    else:
                        active_calls[n.macro_name] = active_calls.get(n.macro_name, 0) - 1
                if field == "completed" and new is True and not s_n["started"] and in_repeatable(n) \
                        and isinstance(n, (p.UodCommandNode, p.EngineCommandNode)):
                    # completion of a command of the previous invocation arriving after the reset
                    res.count("late_completions_after_reset")
                    tainted |= taint_scope(n)
                s_n[field] = new
            elif field == "started" and new is False:
                if not (in_repeatable(n) or isinstance(n, (p.WhitespaceNode, p.MacroNode))):
                    V("C02.reset_outside_repeatable_scope", f"node {nid} {cls} reset to not-started at tick {tick}", n)
                if s_n["started"] and not s_n["completed"] and not s_n["failed"] \
                        and not isinstance(n, (p.WhitespaceNode, p.MacroNode)):
                    res.count("in_progress_resets")
                    # the reset is only harmful if something that executes this node is still alive:
                    chain = [n] + list(n.parents)
                    reps = [a for a in chain if isinstance(a, (p.AlarmNode, p.MacroNode))]
                    top = reps[-1] if reps else None
                    below_top = chain[:chain.index(top)] if top is not None else chain
                    alive = None
                    if any(isinstance(a, p.NodeWithCondition) and registered.get(id(a), False) for a in below_top):
                        alive = "interrupt of a nested Watch/Alarm still registered"
                    elif isinstance(n, (p.UodCommandNode, p.EngineCommandNode)):
                        alive = "command still executing in the command manager"
                    elif any(isinstance(a, p.MacroNode) and any(isinstance(b, p.AlarmNode) for b in a.parents)
                             and active_calls.get(a.macro_name, 0) >= 1 for a in chain):
                        alive = "macro defined inside an Alarm body is being executed by a caller"
                    if alive:
                        res.count("harmful_in_progress_resets")
                        tainted |= taint_scope(n)
                    if isinstance(n, p.CallMacroNode) and not s_n.get("abandoned"):
                        active_calls[n.macro_name] = active_calls.get(n.macro_name, 0) - 1
                s_n["started"] = False
                s_n["abandoned"] = False
                if isinstance(n, p.BlockNode):
                    lock_ok[pid] = False      # a reset Block must take the lock again before its body may run
                if isinstance(n, p.NodeWithChildren):
                    last_started_idx[pid] = -1
            elif field == "child_index" and new == 0:
                last_started_idx[pid] = -1
            elif field == "started" and new is True:
                s_n["started"] = True
                res.count("start_events")
                started_nodes += 1
                if isinstance(n, p.CallMacroNode):
                    s_n["abandoned"] = False
                    c = active_calls[n.macro_name] = active_calls.get(n.macro_name, 0) + 1
                    max_active[n.macro_name] = max(max_active.get(n.macro_name, 0), c)
                    pending_first[n.macro_name] = (nid, tick)   # this invocation has not started a body line yet
                    if c == 1:
                        # no other call of this macro in progress: a fresh invocation, its lines start from the top
                        # again (the first-line rule below checks that it really does)
                        for m_ in macro_defs.get(n.macro_name, []):
                            last_started_idx[id(m_)] = -1
                par = n.parent
                if par is None:
                    continue
                rearm = isinstance(n, p.AlarmNode) and pid in ever_started
                ever_started.add(pid)
                if rearm:
                    continue
                # rule 3: enclosing scope has started (macro body: a call of that macro is in progress)
                if isinstance(par, p.MacroNode):
                    res.count("macro_body_starts")
                    pf = pending_first.pop(par.macro_name, None)
                    if pf is not None and not isinstance(n, p.WhitespaceNode):
                        # first body line started by this invocation: each invocation starts its lines from the top
                        res.count("macro_invocation_first_line_checks")
                        first_idx = next((i for i, c_ in enumerate(par.children) if not isinstance(c_, p.WhitespaceNode)), 0)
                        my_idx = list(par.children).index(n)
                        if my_idx != first_idx:
                            V("C02.macro_invocation_does_not_start_at_first_line",
                              f"call {pf[0]} of macro {par.macro_name} (started tick {pf[1]}) started body line #{my_idx} "
                              f"({nid}) first, at tick {tick}, instead of line #{first_idx}", n)
                    elif pf is not None:
                        pending_first[par.macro_name] = pf
                    if active_calls.get(par.macro_name, 0) <= 0:
                        V("C02.macro_body_line_without_call", f"{nid} {cls} started at tick {tick} with no call of "
                          f"macro {par.macro_name} in progress", n)
                elif not state(id(par))["started"]:
                    V("C02.child_before_parent", f"{nid} {cls} started at tick {tick} before its parent {par.id}", n)
                elif isinstance(par, p.BlockNode) and not isinstance(n, p.WhitespaceNode):
                    # a Block has started only once it holds the block lock (observed as an event since its last reset)
                    res.count("block_body_starts")
                    if not lock_ok.get(id(par), False):
                        V("C02.block_body_line_before_block_lock", f"{nid} {cls} started at tick {tick} although its "
                          f"Block {par.id} did not acquire the block lock since it was (re)set", n)
                idx = list(par.children).index(n)
                prev = last_started_idx.get(id(par), -1)
                res.count("order_checks")
                if idx <= prev and not isinstance(n, p.WhitespaceNode):
                    V("C02.out_of_order_or_duplicate_start",
                      f"child #{idx} ({nid}) of {par.id} started at tick {tick} after child #{prev}", n)
                last_started_idx[id(par)] = max(prev, idx)
                # rule 2: previous sibling done
                if idx > 0 and not isinstance(n, p.WhitespaceNode):
                    sib = par.children[idx - 1]
                    ss = state(id(sib))
                    if type(sib).__name__ in SYNC and not isinstance(sib, (p.WhitespaceNode, p.MacroNode)) \
                            and not short_wait(sib):
                        if not (ss["completed"] or ss["failed"]):
                            # a sync node that was skipped entirely (never started) because its block had ended
                            in_ended = any(id(a) in ended_blocks for a in sib.parents if isinstance(a, p.BlockNode))
                            if ss["started"] or not in_ended:
                                V("C02.started_before_predecessor_completed",
                                  f"{nid} started at tick {tick} while predecessor {sib.id} ({type(sib).__name__}) "
                                  f"started={ss['started']} completed={ss['completed']}", n, sib)
                    elif not isinstance(sib, (p.WhitespaceNode, p.MacroNode)):
                        # Watch/Alarm predecessors are reset by their own re-arm: 'has started at some point' is enough
                        if not ss["started"] and not ss["failed"] and not ss["completed"] and not (
                                isinstance(sib, p.NodeWithCondition) and id(sib) in ever_started):
                            V("C02.started_before_predecessor_started",
                              f"{nid} started at tick {tick} but predecessor {sib.id} never started", n, sib)
        # ---- effect cross-check: unique labels at most once outside Alarm/macro bodies
        marks = rig.marks()
        rep_ok = set()
        for n in prog.get_all_nodes():
            if isinstance(n, p.MarkNode) and in_repeatable(n):
                rep_ok.add(n.name)
        from collections import Counter
        for lab, c in Counter(marks).items():
            res.count("mark_effects", c)
            if c > 1 and lab not in rep_ok:
                viol.append(("C02.mark_effect_twice", f"Mark {lab} appended {c} times"))
        # ---- trailing whitespace never passed
        if not errored:
            tail = []
            for ch in reversed(prog.children):
                if isinstance(ch, p.WhitespaceNode):
                    tail.append(ch)
                else:
                    break
            if tail:
                res.count("ws_checks")
                first_tail_idx = len(prog.children) - len(tail)
                if prog.child_index > first_tail_idx:
                    viol.append(("C02.trailing_whitespace_passed", f"program child_index={prog.child_index} > first trailing "
                                 f"whitespace index {first_tail_idx}"))
                for ch in tail:
                    if ch.completed:
                        viol.append(("C02.trailing_whitespace_passed", f"trailing whitespace {ch.id} completed"))
        # ---- appended line still runs (only when the main path had reached the end of the method)
        main_done = prog.children_complete or (prog.child_index < len(prog.children) and all(
            isinstance(c, p.WhitespaceNode) for c in prog.children[prog.child_index:]))
        if case.get("append") and not errored and rig.state == "Running" and main_done:
            res.count("append_checks")
            lines = text.split("\n")
            if lines and lines[-1] == "":
                lines = lines[:-1]
            new_lines = [(f"L{i}", c) for i, c in enumerate(lines)] + [("Lnew", "Mark: zzAppended")]
            quiesce_ticks = rig.k
            try:
                rig.e.set_method(R.method_from_lines(new_lines, version=1))
                ok = False
                for j in range(quiesce_ticks + 40):
                    # the live edit re-runs the method from line 1 (known finding C01); replaying the trajectory
                    # from its start makes that re-run see what the first pass saw
                    rig.hw.inputs["FT01"] = case["traj"][min(j, len(case["traj"]) - 1)]
                    rig.tick()
                    if "zzAppended" in rig.marks() or rig.errors:
                        ok = True
                        break
                if not ok:
                    np_ = rig.program()
                    idx = np_.child_index
                    if idx >= len(np_.children) or isinstance(np_.children[idx], p.WhitespaceNode):
                        viol.append(("C02.appended_line_never_ran", "line appended after trailing whitespace did not run "
                                     f"within {quiesce_ticks + 40} ticks; interpreter idles at top-level index {idx}"))
                    else:
                        res.count("append_inconclusive_main_path_blocked")
            except Exception as ex:
                viol.append(("C02.append_rejected", f"append at end rejected: {type(ex).__name__}: {ex}"[:300]))
        depth2 = any(len([a for a in n.parents]) >= 3 for n in prog.get_all_nodes())
        interesting = depth2 or any(isinstance(n, (p.WatchNode, p.AlarmNode, p.CallMacroNode)) for n in prog.get_all_nodes())
        if errored:
            res.count("runs_ending_in_error")
        res.case(shape_hash(text) if interesting and started_nodes >= 5 else None,
                 sample={"method": text, "ticks": rig.k, "marks": marks[:12], "start_events": started_nodes})
    finally:
        rig.close()
    seen = set()
    for mech, msg in viol:
        if (mech, msg) in seen:
            continue
        seen.add((mech, msg))
        res.violation(mech, msg, case)


def run_shard(spec):
    res = Result()
    rnd = random.Random(spec["seed"])
    for _ in range(spec["n"]):
        case = gen_case(rnd, spec.get("max_depth", 3))
        check_case(case, res)
    return res


def replay(case):
    res = Result()
    check_case(case, res)
    return res
