"""C21 - Unit-aware comparisons are exact, consistent and symmetric.

Pure-function rig: direct calls of openpectus.lang.exec.units.are_comparable / compare_values over ALL ordered pairs of
supported units (incl. None) and generated decimal value pairs; the oracle is an exact Fraction conversion table written
here from the unit definitions (independent of pint and of Decimal)."""
from __future__ import annotations

import random
from fractions import Fraction as F

from opv.core import Result

ID = "C21"
LEVEL = "exploration"
TECHNIQUE = "runtime monitoring: differential against an exact rational conversion table, all unit pairs enumerated"
RULE = ("every ordered pair of units returned by get_supported_units() (incl. None) is enumerated (exhaustive part: "
        "order independence of are_comparable); for every pair the code calls comparable: value pairs "
        "{0,+-1}^2, pairs exactly equal after conversion (1-17 significant digits, exponents -9..+9), the same pairs "
        "with one side moved by one unit in its 16th/17th/18th significant digit, independent random pairs, notation "
        "variants ('5' vs '5.0'); all six operators per value pair, decided by exact Fraction arithmetic. All values "
        "have <= 20 significant digits. distinct = (unit_a, unit_b, value-pair class); non-trivial = the two units "
        "differ (a conversion is involved) or the value pair is not one of the {0,+-1} constants")
ASSUMPTIONS = [
    "oracle table (trusted base): SI factors, min=60 s, h=3600 s, d=24 h, bar=1e5 Pa, L=dm3, degC=K-273.15, "
    "degF=(K*9/5)-459.67, LMH=L/m2/h, %/vol%/wt%/mol% all denote 1/100 (the repository's own test asserts 9 % = 9 vol%), "
    "AU=1000 mAU",
    "which pairs are comparable is NOT prescribed by the oracle (vol% vs wt% is deliberately rejected by the code); only "
    "order independence is asserted, and the operator laws only for pairs the code itself declares comparable",
    "values are decimal strings with <= 20 significant digits whose exact images in the common unit need <= 26 digits, "
    "and unequal quantities differ by >= 1e-22 relative to their magnitude in unit a, unit b and the base unit (offsets "
    "can push a value next to zero), so that the 28-digit Decimal context is not what is being tested",
    "the alias '==' is exercised but only counted",
]
REQUIRED = {"pairs_symmetry_checked": 2000, "comparable_pairs": 100, "operator_calls": 20000, "equal_after_conversion_cases": 500,
            "digit18_cases": 500, "trichotomy_checks": 3000}
EXHAUSTIVE_ALL = False

OPS = ("<", "<=", "=", ">", ">=", "!=")

# ---------------------------------------------------------------------------------------------------------------------
# Oracle: unit -> (quantity, factor, offset) with  base_value = factor * x + offset   (exact rationals)
_T = F(27315, 100)
TABLE: dict[str, tuple[str, F, F]] = {}


def _add(quantity: str, unit: str, factor, offset=0):
    TABLE[unit] = (quantity, F(factor), F(offset))


for _u, _f in (("s", 1), ("min", 60), ("h", 3600), ("ms", F(1, 1000))):
    _add("time", _u, _f)
for _u, _f in (("m", 1), ("cm", F(1, 100))):
    _add("length", _u, _f)
for _u, _f in (("m**2", 1), ("m2", 1), ("dm2", F(1, 100)), ("cm2", F(1, 10000))):
    _add("area", _u, _f)
for _u, _f in (("kg", 1), ("g", F(1, 1000))):
    _add("mass", _u, _f)
for _u, _f in (("kg/L", 1), ("g/L", F(1, 1000))):
    _add("density", _u, _f)
# temperature in kelvin
_add("temperature", "K", 1)
_add("temperature", "degC", 1, _T)
_add("temperature", "°C", 1, _T)
_add("temperature", "degF", F(5, 9), F(45967, 100) * F(5, 9))
_add("temperature", "°F", F(5, 9), F(45967, 100) * F(5, 9))
_add("amount_of_substance", "mol", 1)
for _u, _f in (("L", 1), ("mL", F(1, 1000))):
    _add("volume", _u, _f)
for _u, _f in (("L/h", 1), ("L/min", 60), ("L/d", F(1, 24))):
    _add("flow", _u, _f)
for _u, _f in (("Hz", 1), ("kHz", 1000)):
    _add("frequency", _u, _f)
for _u, _f in (("Pa", 1), ("pascal", 1), ("bar", 100000)):
    _add("pressure", _u, _f)
for _u, _f in (("kg/h", 1), ("g/s", F(3600, 1000)), ("g/min", F(60, 1000)), ("g/h", F(1, 1000))):
    _add("mass flow rate", _u, _f)
for _u, _f in (("mS/cm", 1), ("µS/cm", F(1, 1000))):
    _add("conductivity", _u, _f)
for _u in ("%", "vol%", "wt%", "mol%"):
    _add("percentage", _u, 1)
_add("column volume", "CV", 1)
for _u, _f in (("AU", 1), ("mAU", F(1, 1000)), ("milliAU", F(1, 1000))):
    _add("absorbance", _u, _f)
for _u in ("LMH/bar", "L/m2/h/bar", "L/h/m2/bar"):
    _add("permeability", _u, 1)
for _u in ("LMH", "L/m2/h", "L/h/m2"):
    _add("flux", _u, 1)
TABLE_NONE = ("<none>", F(1), F(0))

FAHRENHEIT = ("degF", "°F")
NON_FAHRENHEIT_TEMP = ("degC", "°C", "K")
PCT_SPECIFIC = ("vol%", "wt%", "mol%")


def entry(u):
    return TABLE_NONE if u is None else TABLE[u]


def base(u, x: F) -> F:
    _, f, o = entry(u)
    return f * x + o


# ---------------------------------------------------------------------------------------------------------------------
# exact decimal helpers

def _strip25(n: int) -> int:
    for p in (2, 5):
        while n % p == 0:
            n //= p
    return n


def terminating(fr: F) -> bool:
    return _strip25(fr.denominator) == 1


def frac_to_str(fr: F) -> str:
    """exact plain decimal notation of a terminating rational"""
    assert terminating(fr)
    n, d = fr.numerator, fr.denominator
    k = 0
    while d != 1:
        # multiply by 10 until the denominator vanishes
        n *= 10
        k += 1
        g = _gcd(n, d)
        n //= g
        d //= g
    s = str(abs(n))
    if k:
        s = s.rjust(k + 1, "0")
        s = s[:-k] + "." + s[-k:]
    return ("-" if n < 0 else "") + s


def _gcd(a, b):
    a, b = abs(a), abs(b)
    while b:
        a, b = b, a % b
    return a


def sig_digits(fr: F) -> int:
    if fr == 0:
        return 1
    s = frac_to_str(abs(fr)).replace(".", "").lstrip("0")
    return len(s.rstrip("0")) or 1


def span_digits(fr: F) -> int:
    """number of decimal digits from the leading digit down to the last non-zero fractional digit (what a decimal
    accumulator must hold to represent fr exactly)"""
    if fr == 0:
        return 1
    s = frac_to_str(abs(fr))
    ip, _, fp = s.partition(".")
    ip = ip.lstrip("0")
    fp = fp.rstrip("0")
    if ip:
        return len(ip) + len(fp) if fp else len(ip.rstrip("0")) or 1
    return len(fp.lstrip("0"))


def magnitude(fr: F) -> int:
    """floor(log10(|fr|)) for fr != 0"""
    a = abs(fr)
    e = 0
    while a >= 10:
        a /= 10
        e += 1
    while a < 1:
        a *= 10
        e -= 1
    return e


# ---------------------------------------------------------------------------------------------------------------------
# value-pair generator

def rand_decimal(rnd: random.Random, max_digits=17, emin=-9, emax=9) -> F:
    d = rnd.randint(1, max_digits)
    m = rnd.randrange(10 ** (d - 1), 10 ** d)
    e = rnd.randint(emin, emax) - (d - 1)
    v = F(m) * (F(10) ** e)
    return -v if rnd.random() < 0.3 else v


def usable(ua, x: F, ub, y: F) -> bool:
    """both literals terminate with <= 20 significant digits and their exact images need <= 26 digits"""
    for u, v in ((ua, x), (ub, y)):
        if not terminating(v) or sig_digits(v) > 20:
            return False
        _, f, o = entry(u)
        if o != 0:
            # affine unit: the exact sum with the (decimal) offset constant must be representable
            off_in_unit = o / f                     # 273.15 resp. 459.67
            if span_digits(v + off_in_unit) > 26:
                return False
        if span_digits(v) > 26:
            return False
    return True


REL_SEPARATION = F(1, 10 ** 22)


def resolvable(ua, x: F, ub, y: F) -> bool:
    """unequal quantities must stay apart by >= 1e-22 of their magnitude in every representation a decimal
    implementation may pick (unit a, unit b, base unit): an offset can move a value next to zero or far away from it,
    and then the 28-digit context - not the comparison logic - would decide"""
    bx, by = base(ua, x), base(ub, y)
    if bx == by:
        return True
    _, fa, oa = entry(ua)
    _, fb, ob = entry(ub)
    for p, q in ((x, (by - oa) / fa), ((bx - ob) / fb, y), (bx, by)):
        m = max(abs(p), abs(q))
        if m != 0 and abs(p - q) < REL_SEPARATION * m:
            return False
    return True


def equal_pair(rnd: random.Random, ua, ub):
    """(x, y) with base(ua,x) == base(ub,y), both terminating decimals; None if none was found"""
    for _ in range(12):
        fwd = rnd.random() < 0.5
        src, dst = (ua, ub) if fwd else (ub, ua)
        _, fs, os_ = entry(src)
        _, fd, od = entry(dst)
        r = fs / fd
        c = (os_ - od) / fd                        # y = r*x + c
        q = _strip25(r.denominator)
        x0 = -c / r
        if not terminating(x0):
            x0 = F(0)
        t = rand_decimal(rnd)
        if rnd.random() < 0.15:
            t = F(rnd.choice((0, 1, -1, 5, 10, 100)))
        x = x0 + q * t
        y = r * x + c
        if not (terminating(x) and terminating(y)):
            continue
        xa, yb = (x, y) if fwd else (y, x)
        if usable(ua, xa, ub, yb):
            return xa, yb
    return None


def nudge(rnd: random.Random, v: F):
    """v moved by one unit in its 16th, 17th or 18th significant digit"""
    k = rnd.choice((16, 17, 18))
    if v == 0:
        return None, k
    ulp = F(10) ** (magnitude(v) - (k - 1))
    return (v + ulp if rnd.random() < 0.5 else v - ulp), k


def variant_notation(rnd: random.Random, s: str) -> str:
    """same number, different literal: trailing zeros / '.0'"""
    if "." in s:
        return s + "0" * rnd.randint(1, 2)
    return s + "." + "0" * rnd.randint(1, 2)


CONSTS = [(a, b) for a in (0, 1, -1) for b in (0, 1, -1)]


def gen_value_pairs(rnd: random.Random, ua, ub, n: int):
    """yields (klass, x, y, x_literal, y_literal)"""
    out = []
    for a, b in CONSTS:
        out.append(("const", F(a), F(b), str(a), str(b)))
    n_eq = max(4, n * 3 // 10)
    n_nudge = max(4, n * 4 // 10)
    n_rand = max(2, n - n_eq - n_nudge)
    for _ in range(n_eq):
        p = equal_pair(rnd, ua, ub)
        if p is None:
            continue
        xs, ys = frac_to_str(p[0]), frac_to_str(p[1])
        if rnd.random() < 0.25:
            xs = variant_notation(rnd, xs)
        if rnd.random() < 0.25:
            ys = variant_notation(rnd, ys)
        out.append(("equal", p[0], p[1], xs, ys))
    for _ in range(n_nudge):
        p = equal_pair(rnd, ua, ub)
        if p is None:
            continue
        x, y = p
        if rnd.random() < 0.5:
            x2, k = nudge(rnd, x)
            if x2 is None or not usable(ua, x2, ub, y) or not resolvable(ua, x2, ub, y):
                continue
            out.append((f"digit{k}", x2, y, frac_to_str(x2), frac_to_str(y)))
        else:
            y2, k = nudge(rnd, y)
            if y2 is None or not usable(ua, x, ub, y2) or not resolvable(ua, x, ub, y2):
                continue
            out.append((f"digit{k}", x, y2, frac_to_str(x), frac_to_str(y2)))
    for _ in range(n_rand):
        x = rand_decimal(rnd, 17, -12, 14)
        y = rand_decimal(rnd, 17, -12, 14)
        if usable(ua, x, ub, y) and resolvable(ua, x, ub, y):
            out.append(("random", x, y, frac_to_str(x), frac_to_str(y)))
    return out


# ---------------------------------------------------------------------------------------------------------------------

def plan(tier, seed):
    shards = 16 if tier == "quick" else 48
    n = 40 if tier == "quick" else 1500
    return [{"seed": seed * 1000003 + i, "shard": i, "shards": shards, "n": n} for i in range(shards)]


def _call(fn, *a):
    try:
        return ("ok", fn(*a))
    except Exception as ex:  # noqa: BLE001 - the exception type is part of the observation
        return ("exc", type(ex).__name__, str(ex)[:160])


def _pint_dims_differ(U, ua, ub) -> bool:
    try:
        return U.ureg.Unit(ua).dimensionality != U.ureg.Unit(ub).dimensionality
    except Exception:  # noqa: BLE001
        return False


def check_symmetry(U, ua, ub, res: Result):
    """order independence of are_comparable for one ordered pair; returns the forward answer"""
    fwd = _call(U.are_comparable, ua, ub)
    bwd = _call(U.are_comparable, ub, ua)
    res.count("pairs_symmetry_checked")
    case = {"kind": "symmetry", "unit_a": ua, "unit_b": ub}
    if fwd[0] == "exc" or bwd[0] == "exc":
        res.violation("C21.are_comparable_raises_for_supported_units",
                      f"are_comparable({ua!r},{ub!r}) -> {fwd}, reversed -> {bwd}", case)
    elif fwd[1] != bwd[1]:
        mech = None
        pair = {ua, ub}
        spec = [u for u in pair if u in PCT_SPECIFIC]
        if "%" in pair and len(spec) == 1:
            # causal shape: the specific percentage lists only itself as compatible, the generic '%' lists the family
            try:
                if U.get_compatible_unit_names(spec[0]) == [spec[0]] and spec[0] in U.get_compatible_unit_names("%"):
                    mech = "C21.percent_family_comparable_one_way"
            except Exception:  # noqa: BLE001
                pass
        res.violation(mech, f"are_comparable({ua!r},{ub!r}) = {fwd[1]} but are_comparable({ub!r},{ua!r}) = {bwd[1]}", case)
    return fwd[1] if fwd[0] == "ok" else None


def check_values(U, ua, ub, klass, x: F, y: F, xs: str, ys: str, res: Result):
    """six operators on one value pair of a pair of units the code declared comparable"""
    bx, by = base(ua, x), base(ub, y)
    cmp_ = (bx > by) - (bx < by)
    expected = {"<": cmp_ < 0, "<=": cmp_ <= 0, "=": cmp_ == 0, ">": cmp_ > 0, ">=": cmp_ >= 0, "!=": cmp_ != 0}
    got = {}
    for op in OPS:
        got[op] = _call(U.compare_values, op, xs, ua, ys, ub)
        res.count("operator_calls")
    alias = _call(U.compare_values, "==", xs, ua, ys, ub)
    if alias != got["="]:
        res.count("alias_eqeq_differs_from_eq")
    case = {"kind": "values", "unit_a": ua, "unit_b": ub, "value_a": xs, "value_b": ys, "class": klass}
    if klass == "equal":
        res.count("equal_after_conversion_cases")
    elif klass.startswith("digit"):
        res.count("digit18_cases")
    raised = {op: g for op, g in got.items() if g[0] == "exc"}
    wrong = {op: g[1] for op, g in got.items() if g[0] == "ok" and g[1] is not expected[op]}
    incons = []
    if not raised:
        r = {op: got[op][1] for op in OPS}
        res.count("trichotomy_checks")
        if [r["<"], r["="], r[">"]].count(True) != 1:
            incons.append(f"not exactly one of <,=,> : {r['<']},{r['=']},{r['>']}")
        if r["!="] is not (not r["="]):
            incons.append(f"'!=' is {r['!=']} while '=' is {r['=']}")
        if r["<="] is not (r["<"] or r["="]):
            incons.append(f"'<=' is {r['<=']} while '<' is {r['<']} and '=' is {r['=']}")
        if r[">="] is not (r[">"] or r["="]):
            incons.append(f"'>=' is {r['>=']} while '>' is {r['>']} and '=' is {r['=']}")
    if not (raised or wrong or incons):
        return
    # ---------------- narrow mechanism classifiers (causal shape, never a concrete value)
    mech = classify(U, ua, ub, x, y, cmp_, raised, wrong)
    parts = []
    if raised:
        parts.append("raised: " + ", ".join(f"{op} -> {g[1]}({g[2]})" for op, g in raised.items()))
    if wrong:
        parts.append("differs from exact comparison: " + ", ".join(f"{op} -> {v} (exact {expected[op]})" for op, v in wrong.items()))
    if incons:
        parts.append("; ".join(incons))
    res.violation(mech, f"{xs} {ua} vs {ys} {ub} [{klass}]: " + " | ".join(parts), case)


def classify(U, ua, ub, x: F, y: F, cmp_: int, raised: dict, wrong: dict):
    units = {ua, ub}
    if len(units) != 2 or None in units:
        return None
    ea, eb = entry(ua), entry(ub)
    if units == {"%", "mol%"} and _pint_dims_differ(U, "%", "mol%") and raised and \
            all(g[1] == "ValueError" and g[2] == "Conversion error" for g in raised.values()) and \
            set(wrong) <= {"=", "!="}:
        # pint parses 'mol%' as mole*percent: a dimensionality error (a TypeError) inside the comparison
        return "C21.molpercent_parsed_as_mole_times_percent"
    if raised:
        return None
    if x == 0 and y == 0 and ea[0] == eb[0] == "temperature" and (ea[1], ea[2]) != (eb[1], eb[2]) and \
            wrong == {"!=": False} and _pint_zero_shortcut(U, ua, ub):
        # '!=' is evaluated by pint without conversion; pint calls two zero magnitudes equal whatever the offsets.
        # ('=' converts first and is right.)
        return "C21.not_equal_of_two_zeros_ignores_temperature_offset"
    if cmp_ == 0 and len(units & set(FAHRENHEIT)) == 1 and len(units & set(NON_FAHRENHEIT_TEMP)) == 1 and \
            _fahrenheit_offset_inexact(U):
        # equal after conversion, Fahrenheit against Celsius/kelvin: the registry's Decimal offset of degF is rounded
        return "C21.fahrenheit_offset_inexact"
    if cmp_ == 0 and ea[2] == 0 and eb[2] == 0 and ea[0] == eb[0] and \
            (not terminating(ea[1] / eb[1]) or not terminating(eb[1] / ea[1])) and _pint_factor_rounded(U, ua, ub):
        # equal after conversion, purely multiplicative units whose ratio (or its reciprocal: 1/60, 1/3600, 1/24 ...)
        # has no finite decimal expansion: pint multiplies by the 28-digit rounded Decimal factor
        return "C21.nonterminating_conversion_factor_rounded"
    return None


def _pint_zero_shortcut(U, ua, ub) -> bool:
    try:
        z = U.decimal.Decimal(0)
        return bool(U.ureg.Quantity(z, ua) == U.ureg.Quantity(z, ub))
    except Exception:  # noqa: BLE001
        return False


def _pint_factor_rounded(U, ua, ub) -> bool:
    """causal shape: at least one direction of the registry's Decimal conversion factor differs from the exact ratio"""
    try:
        one = U.decimal.Decimal(1)
        ab = F(str(U.ureg.Quantity(one, ua).to(ub).magnitude))
        ba = F(str(U.ureg.Quantity(one, ub).to(ua).magnitude))
        return ab != entry(ua)[1] / entry(ub)[1] or ba != entry(ub)[1] / entry(ua)[1]
    except Exception:  # noqa: BLE001
        return False


def _fahrenheit_offset_inexact(U) -> bool:
    """causal shape: pint's Decimal registry holds a rounded (non-terminating) offset for degree_Fahrenheit"""
    try:
        one = U.ureg.Quantity(U.decimal.Decimal(0), "degF").to("K").magnitude      # 255.3722...
        return F(str(one)) != F(45967, 100) * F(5, 9)
    except Exception:  # noqa: BLE001
        return False


def run_pair(U, ua, ub, rnd, n, res: Result):
    comparable = check_symmetry(U, ua, ub, res)
    if ua is not None and ub is not None and ua in TABLE and ub in TABLE and TABLE[ua][0] == TABLE[ub][0] and not comparable:
        res.count("same_quantity_declared_not_comparable")
    if not comparable:
        r = _call(U.compare_values, "=", "1", ua, "1", ub)
        res.count("not_comparable_pairs")
        if r[0] == "ok":
            res.count("not_comparable_but_compare_values_answers")
        res.case(None)
        return
    res.count("comparable_pairs")
    for klass, x, y, xs, ys in gen_value_pairs(rnd, ua, ub, n):
        check_values(U, ua, ub, klass, x, y, xs, ys, res)
        nontrivial = (ua != ub) or klass != "const"
        res.case((ua, ub, klass) if nontrivial else None,
                 sample={"unit_a": ua, "value_a": xs, "unit_b": ub, "value_b": ys, "class": klass} if nontrivial and
                 klass != "const" else None)


def run_shard(spec):
    import openpectus.lang.exec.units as U
    res = Result()
    supported = list(U.get_supported_units())
    unknown = [u for u in supported if u is not None and u not in TABLE]
    if unknown:
        res.notes.append(f"units without an oracle entry (skipped, enumeration NOT complete): {unknown}")
        res.count("units_without_oracle", len(unknown))
    units = [u for u in supported if u is None or u in TABLE]
    pairs = [(a, b) for a in units for b in units]
    for i, (ua, ub) in enumerate(pairs):
        if i % spec["shards"] != spec["shard"]:
            continue
        rnd = random.Random(spec["seed"] * 7919 + i)
        run_pair(U, ua, ub, rnd, spec["n"], res)
    if not unknown:
        res.exhaustive_parts.append(f"order independence of are_comparable over all {len(pairs)} ordered pairs of the "
                                    f"{len(units)} supported units (incl. None); operator laws on every pair declared comparable")
    return res


def replay(case):
    import openpectus.lang.exec.units as U
    res = Result()
    if case.get("kind") == "symmetry":
        check_symmetry(U, case["unit_a"], case["unit_b"], res)
    else:
        check_values(U, case["unit_a"], case["unit_b"], case.get("class", "replay"), F(case["value_a"]), F(case["value_b"]),
                     case["value_a"], case["value_b"], res)
    return res
