"""C16 - Reported tag times are the engine time of the change.

Every tag value delivered by the real EngineMessageBuilder (incremental and snapshot reports taken after random
1-7 ticks of generated runs) is checked against the virtual engine clock: bounds, per-tag monotonicity, and - for
a value whose last change the harness observed in rig tick k - membership of its tick_time in [T_k, T_k+interval).
See DESIGN.md C16 and opv/rigs/tagreport_rig.py (shared with C36: same runs)."""
from __future__ import annotations

import random
import shutil
import tempfile

from opv.core import Result
from opv.gen_pcode import shape_hash

ID = "C16"
LEVEL = "exploration"
TECHNIQUE = ("runtime monitoring: time-stamp oracle over real tag-update messages against a virtual engine clock "
             "(setattr hook on Tag records the tick of every value change)")
RULE = ("seeded P-code generator (Block/End block(s), Mark, Simulate/Simulate off with and without unit, Watch, Alarm, "
        "Macro, Wait, thresholds, Base, run counter, Pause/Hold, UOD commands writing tags) x scripted FT01 and "
        "totalizer trajectories (always moving / never moving / flow phases of 1-12 ticks alternating with plateaus of "
        "5-30 ticks / an early burst of 1-8 ticks followed by standstill, so that block starts and ends fall into "
        "plateaus while outer scopes hold volume) x accumulator UOD (with_accumulated_volume, with_accumulated_volume + "
        "with_accumulated_cv, with_accumulated_cv only; column volume 0.5/2/4 L) x archiver on/off x optional user Pause/Hold/Stop/Start/Restart x report schedule "
        "(incremental or snapshot report after random 1-7 ticks, through the real EngineMessageBuilder); virtual clock "
        "starting at 1.7e9 with 0.1 s ticks. distinct = shape hash of the method text + archiver flag; non-trivial = "
        "the change-window rule was evaluated for at least 4 different tags in that run")
ASSUMPTIONS = [
    "engine start = the clock time at which the Engine object was constructed (EPOCH of the virtual clock)",
    "'the tick in which the value was set' = the rig tick in which the harness saw the reported value "
    "(simulated_value if simulated else value, i.e. what Tag.as_readonly() reports) change; assignments of an equal "
    "value are not changes; changes before the first engine tick are not judged (no tick exists yet and "
    "Engine.tick deliberately re-stamps all system tags in its first tick)",
    "a tick_time later than the tick of the last observed change is NOT judged if it is the clock time of a later "
    "tick in which the tag was stamped again (e.g. the hidden real value of a simulated tag was set): counted as "
    "restamped_after_last_change",
    "when a simulation ends the un-masked real value may carry either the time of the un-masking tick or the time of "
    "the tick in which that real value was last set (or its construction / first-tick default time); anything else "
    "(e.g. the time at which the *simulated* value had been set) is a violation",
    "time.time() is bound to the virtual clock (T_k + 1 us inside tick k), because several tags stamp themselves "
    "with time.time(); upper bound is current tick + interval as in DESIGN.md",
    "observation through Tag.__setattr__ / Tag.notify_listeners replaced from the harness; a tick-end snapshot of "
    "all tags cross-checks the hook (counter hook_miss)",
]
REQUIRED = {"reports": 1500, "snapshot_reports": 300, "reported_values": 20000, "bounds_checks": 20000,
            "monotone_checks": 15000, "window_checks": 10000, "window_checks_tag:Block": 100,
            "window_checks_tag:Mark": 100, "window_checks_tag:Accumulated Volume": 300,
            "window_checks_tag:Block Volume": 300, "window_checks_simulated": 40, "unmask_checks": 10,
            "runs_with_archiver": 100, "runs_with_user_commands": 50,
            # totalizer plateaus / accumulator UODs: judged Block Volume / Block CV values whose last change happened in
            # a tick in which the totalizer stood still (= switch between the accumulators of two block scopes)
            "runs_tot_plateaus": 200, "runs_tot_burst": 150, "runs_uod_cv": 100, "runs_uod_vol+cv": 200,
            "window_checks_tag:Accumulated CV": 300, "window_checks_tag:Block CV": 300,
            "block_acc_switch_at_rest": 150, "block_acc_switch_at_rest_to_nonzero": 60,
            "block_acc_switch_at_rest_to_nonzero_tag:Block Volume": 30,
            "block_acc_switch_at_rest_to_nonzero_tag:Block CV": 20}

EPOCH = 1_700_000_000.0
BLOCK_SITES = {"visit_BlockNode": "C16.block_tag_tick_number_at_block_start",
               "visit_EndBlockNode": "C16.block_tag_tick_number_at_end_block",
               "visit_EndBlocksNode": "C16.block_tag_tick_number_at_end_blocks"}


def plan(tier, seed):
    n = 2000 if tier == "quick" else 30000
    shards = 16 if tier == "quick" else 48
    per = n // shards
    return [{"seed": seed * 1000003 + i, "n": per, "max_depth": 3 if tier == "quick" else 4,
             "max_ticks": 110 if tier == "quick" else 140} for i in range(shards)]


def _is_num(x):
    return isinstance(x, (int, float)) and not isinstance(x, bool)


def classify(name, info, tt, run, rule):
    """Narrow causal classifier. `rule` is the oracle rule that failed (bounds / stale / late / unmask / monotone)."""
    shadow = info["tick_time"]
    s = info["stamp_tick"]
    # the stamp is exactly the engine's tick *number* of the tick in which it was assigned
    if _is_num(shadow) and shadow < EPOCH and s is not None and s >= 1 and shadow == run.engine_tick_number.get(s):
        if name == "Block" and info["stamp_site"] == "set_value" and info["stamp_caller"] in BLOCK_SITES:
            return BLOCK_SITES[info["stamp_caller"]]
        if info["stamp_site"] == "simulate_value" and info["stamp_caller"] == "visit_SimulateNode":
            return "C16.simulate_without_unit_tick_number"
        return "C16.tick_number_as_time_at_other_site"
    k = info["chg_tick"]
    if rule in ("stale", "unmask") and k is not None and not info["stamped_in_chg_tick"]:
        if info["cls"] in ("BlockTimeTag", "ScopeTimeTag") and info["chg_site"] in ("on_tick", "on_start",
                                                                                    "on_scope_start"):
            return "C16.block_scope_time_assigned_without_stamp"
        if info["chg_unmask"] and info["chg_site"] == "stop_simulation":
            return "C16.simulate_off_keeps_old_time"
        return "C16.value_changed_without_stamp"
    if rule == "stale":
        return "C16.stamp_not_in_tick_of_change"
    if rule == "monotone":
        return "C16.time_decreased"
    return None


def check_run(run, res: Result, case):
    viol: dict[tuple, str] = {}
    prev_tt: dict[str, float] = {}
    judged_tags: set[str] = set()
    rest_seen: set[tuple] = set()
    res.count("runs_tot_" + str(case.get("tot_kind", "linear")))
    res.count("runs_uod_" + str(case.get("uod", "vol")))
    if run.tick_exceptions:
        res.count("runs_with_tick_exception")
    res.count("hook_miss", run.hook_miss)
    res.count("hook_hits", run.hook_hits)
    res.count("ticks", run.ticks)
    for rp in run.reports:
        r = rp.after_tick
        res.count("reports")
        if rp.kind == "snap":
            res.count("snapshot_reports")
        hi = run.T[r] + run.interval
        for name, tt, v, sim in rp.entries:
            info = rp.tags.get(name)
            if info is None:
                continue
            res.count("reported_values")
            failed = None          # (rule, text)
            # ---- rule 1: last observed change of the reported value happened in rig tick k
            k = info["chg_tick"]
            if k is not None and k >= 1:
                res.count("window_checks")
                res.count("window_checks_tag:" + name)
                if info["simulated"]:
                    res.count("window_checks_simulated")
                judged_tags.add(name)
                lo_k, hi_k = run.window(k)
                if info["chg_unmask"]:
                    res.count("unmask_checks")          # last change = end of a simulation
                if info.get("tot_rest_in_chg_tick") and (name, k) not in rest_seen:
                    # block accumulator (Block Volume / Block CV) whose value changed in a tick in which its totalizer
                    # stood still: the change is a switch between the accumulators of two block scopes
                    rest_seen.add((name, k))
                    res.count("block_acc_switch_at_rest")
                    res.count("block_acc_switch_at_rest_tag:" + name)
                    if info["value"] != 0:
                        res.count("block_acc_switch_at_rest_to_nonzero")      # back to a scope that holds volume
                        res.count("block_acc_switch_at_rest_to_nonzero_tag:" + name)
                if lo_k <= tt < hi_k:
                    res.count("window_ok")
                elif info["chg_unmask"]:
                    j = info["raw_chg_tick"]
                    if j is not None and j >= 1:
                        ok = run.in_window(tt, j)
                    else:
                        ok = EPOCH <= tt < run.T[1] + run.interval      # construction or first-tick default
                    if ok:
                        res.count("unmask_time_of_real_value_ok")
                    else:
                        failed = ("unmask", f"value un-masked in tick {k} (T={lo_k!r}) carries tick_time {tt!r}: neither the "
                                  f"un-masking tick nor the tick in which the real value was set (raw change tick {j})")
                elif tt < lo_k:
                    failed = ("stale", f"value changed in tick {k} (T={lo_k!r}, by {info['chg_site']}) but carries the "
                              f"earlier tick_time {tt!r}")
                else:
                    s = info["stamp_tick"]
                    if s is not None and s > k and run.in_window(tt, s):
                        res.count("restamped_after_last_change")       # ambiguous, not judged
                    else:
                        failed = ("late", f"value changed in tick {k} (T={lo_k!r}) but carries tick_time {tt!r} which "
                                  f"is not the time of any tick in which the tag was stamped (last stamp tick {s})")
            else:
                res.count("no_change_seen_not_judged")
            # ---- rule 2: bounds
            res.count("bounds_checks")
            if failed is None and not (EPOCH <= tt < hi):
                failed = ("bounds", f"tick_time {tt!r} outside [engine start {EPOCH!r}, current tick {run.T[r]!r} + interval)")
            # ---- rule 3: per tag never decreasing
            if name in prev_tt:
                res.count("monotone_checks")
                if failed is None and tt < prev_tt[name]:
                    failed = ("monotone", f"tick_time decreased from {prev_tt[name]!r} to {tt!r}")
            prev_tt[name] = tt
            if failed is not None:
                mech = classify(name, info, tt, run, failed[0])
                key = (mech, name)
                if key not in viol:
                    viol[key] = (f"report #{rp.index} ({rp.kind}) after tick {r}: tag '{name}' value={v!r}: {failed[1]}; "
                                 f"stamp site={info['stamp_site']}<-{info['stamp_caller']} stamp tick={info['stamp_tick']} "
                                 f"tag.tick_time={info['tick_time']!r}")
                else:
                    res.count("violation_repeats_in_run")
    if case.get("archiver"):
        res.count("runs_with_archiver")
    if case.get("user"):
        res.count("runs_with_user_commands")
    if run.errors:
        res.count("runs_ending_in_error")
    nontrivial = len(judged_tags) >= 4
    res.case((shape_hash(case["text"]) + ("A" if case.get("archiver") else "-")) if nontrivial else None,
             sample={"method": case["text"], "ticks": run.ticks, "reports": len(run.reports),
                     "archiver": bool(case.get("archiver")), "user": case.get("user"),
                     "tags_judged": sorted(judged_tags)})
    for (mech, name), msg in viol.items():
        res.violation(mech, msg, case)


def run_shard(spec):
    from opv.rigs import tagreport_rig as TR
    res = Result()
    rnd = random.Random(spec["seed"])
    scratch = tempfile.mkdtemp(prefix="opv-")
    try:
        for i in range(spec["n"]):
            case = TR.gen_case(rnd, spec.get("max_depth", 3), spec.get("max_ticks", 110))
            run = TR.run_case(case, scratch, i)
            check_run(run, res, case)
            if case.get("archiver"):
                shutil.rmtree(scratch + f"/arch{i}", ignore_errors=True)
    finally:
        shutil.rmtree(scratch, ignore_errors=True)
    return res


def replay(case):
    from opv.rigs import tagreport_rig as TR
    res = Result()
    scratch = tempfile.mkdtemp(prefix="opv-")
    try:
        run = TR.run_case(case, scratch, 0)
        check_run(run, res, case)
    finally:
        shutil.rmtree(scratch, ignore_errors=True)
    return res
