"""C40 - Requests from the aggregator apply atomically between ticks.

Differential linearizability check against tick boundaries, under a deterministic two/three-thread scheduler that
switches only at sys.monitoring yield points of the engine classes (opv/rigs/thread_rig.py, see DESIGN.md C40/R9).
"""
from __future__ import annotations

import random
import re

from opv.core import Result

ID = "C40"
LEVEL = "fault_enumeration"
TECHNIQUE = ("runtime monitoring: controlled thread scheduler at sys.monitoring yield points + differential "
             "linearizability oracle against the two serial orders at the tick boundary")
RULE = ("base = (corpus method, tick k) of a real Engine on the virtual clock; request kinds = live edit (append), first "
        "set_method, inject_code (Mark / UOD command), execute_control_command_from_user for Start/Stop/Pause/Unpause/"
        "Hold/Unhold/Restart and a UOD command, cancel_instruction, force_instruction. For every base x request ALL "
        "one-preemption schedules are enumerated: tick thread preempted at its i-th yield point (PY_START/PY_RESUME/"
        "PY_THROW of Engine, MethodManager, CommandManager, PInterpreter, Tracking code), request runs to completion (or "
        "until it blocks on engine._lock), tick resumes. On top: two-preemption schedules (request itself preempted at "
        "its j-th yield point; all j (at most 40 per i) on the hand-written bases in the thorough tier, a seeded sample "
        "otherwise) and seeded two-request schedules (3 threads; preemption points i1 <= i2 sampled). Each schedule is a "
        "fresh engine run continued single-threaded to quiescence. Thorough adds 8 generated bases. Plus a serial "
        "'no request lost' sub-check: accepted user command followed by set_method before the next tick. "
        "distinct case = (base, k, request kind, i, j); non-trivial = the tick thread really was preempted before it "
        "finished and the request ran (or blocked) in between")
ASSUMPTIONS = [
    "thread switches matter only at the instrumented yield points (function entries, generator resumptions and throws "
    "of Engine/MethodManager/CommandManager/PInterpreter/Tracking code); bytecode-level preemption inside one function "
    "body is not explored",
    "engine._lock is replaced from the harness by a cooperative lock of the same kind (Lock or RLock) so that blocking "
    "is visible to the scheduler; cyclic GC is off inside the controlled section (finalizers run at refcount time)",
    "'as if applied entirely between two ticks' is read as: the eventual outcome equals the outcome of `request; tick_k` "
    "or of `tick_k; request` (for two requests: of one of the 6 serial orders), all three executed through the same "
    "threaded harness; per-tick timing and time stamps are not compared, run-log items are compared as a multiset",
    "outcome = Mark sequence, per-command-name list of per-instance init/exec/finalize phases, method state, run state "
    "flags, System State, Method Status, Run Id presence, run-log item multiset (name/state/flags), final hardware "
    "register values, error-state exceptions, identity relations between engine/method-manager/interpreter/tracking/"
    "command-manager objects, pending queue/executing names, reply or exception of each request, exceptions in threads",
    "hang = deadlock of all threads on engine._lock or more than 20000 scheduler steps in one controlled tick; a "
    "wall-clock watchdog only makes the shard INCONCLUSIVE",
]
REQUIRED = {"schedules_one_preemption": 8000, "preempted_inside_tick_lock": 8000, "request_ran_interleaved": 8000,
            "serial_pairs": 250, "oracle_comparisons": 10000, "yield_points_seen": 500000,
            "schedules_two_preemptions": 2000, "schedules_two_requests": 100, "request_blocked_on_lock": 300,
            "lost_request_checks": 8}
EXHAUSTIVE_ALL = False

UUID_RE = re.compile(r"[0-9a-f]{8}-[0-9a-f]{4}-[0-9a-f]{4}-[0-9a-f]{4}-[0-9a-f]{12}")
BUDGET = 20000

# ---------------------------------------------------------------------------------------------------------------
# corpus: name, method text, ticks at which the request arrives, actions applied before tick n ("pre"), FT01 value
CORPUS = [
    {"name": "marks_long_wait", "ticks": [3, 5, 8], "ft": 0.0,
     "text": "Base: s\nMark: A\nLong\nWait: 0.5s\nMark: B\nShort\nMark: C\n"},
    {"name": "block_watch", "ticks": [3, 6, 9], "ft": 6.0,
     "text": "Base: s\nBlock: B1\n    Mark: b1\n    Watch: FT01 > 3 L/h\n        Mark: w1\n        Short\n    Wait: 0.4s\n"
             "    Long\n    End block\nMark: after\n"},
    {"name": "uod_overlap", "ticks": [2, 4, 6], "ft": 0.0,
     "text": "Base: s\nLong\nMark: m1\nLong2\nMark: m2\nSet1: 3\nOther\nMark: m3\n"},
    {"name": "macro_calls", "ticks": [4, 7, 10], "ft": 0.0,
     "text": "Base: s\nMacro: M\n    Mark: in1\n    Short\n    Mark: in2\nCall macro: M\nMark: mid\nCall macro: M\nMark: end\n"},
    {"name": "alarm_once", "ticks": [3, 6, 10], "ft": 0.0,
     "text": "Base: s\nAlarm: X = 0\n    Mark: al\n    Simulate: X = 1\nMark: p1\nWait: 0.6s\nLong\nMark: p2\n"},
    {"name": "thresholds", "ticks": [3, 7, 12], "ft": 0.0,
     "text": "Base: s\nMark: t0\n0.5 Mark: t1\n0.8 Short\n1.2 Mark: t2\n"},
    {"name": "pause_in_method", "ticks": [3, 5, 9], "ft": 0.0,
     "text": "Base: s\nMark: q1\nPause: 0.4s\nMark: q2\nHold: 0.3s\nMark: q3\n"},
    {"name": "nested_blocks", "ticks": [4, 8, 11], "ft": 6.0,
     "text": "Base: s\nBlock: O\n    Mark: o1\n    Block: I\n        Mark: i1\n        Drive1\n        End block\n    Mark: o2\n"
             "    Watch: FT01 > 3 L/h\n        End blocks\n    Wait: 2s\nMark: done\n"},
    {"name": "watch_waiting", "ticks": [3, 5, 9], "ft": 0.0,     # Watch never fires: stays cancellable / forcible
     "text": "Base: s\nWatch: FT01 > 3 L/h\n    Mark: never\nMark: r1\nWait: 0.7s\nMark: r2\nLong\n"},
    {"name": "paused_by_user", "ticks": [5, 7, 9], "ft": 0.0, "pre": {0: ["ctl:Start"], 3: ["ctl:Pause"]},
     "text": "Base: s\nMark: u1\nLong\nMark: u2\nWait: 0.5s\nMark: u3\n"},
    {"name": "held_by_user", "ticks": [5, 7, 9], "ft": 0.0, "pre": {0: ["ctl:Start"], 3: ["ctl:Hold"]},
     "text": "Base: s\nMark: h1\nLong\nMark: h2\nWait: 0.5s\nMark: h3\n"},
    {"name": "start_pending", "ticks": [1, 2, 3], "ft": 0.0, "kinds": ["set_method_first", "inject_mark", "ctl:Stop",
                                                                       "ctl:Pause", "ctl:Short"],
     "text": "Base: s\nMark: s1\nShort\nMark: s2\n"},
    {"name": "stopped_idle", "ticks": [2], "ft": 0.0, "pre": {}, "kinds": ["set_method_first", "ctl:Start"],
     "text": "Base: s\nMark: i1\nMark: i2\n"},
]
FIRST_METHOD = "Base: s\nMark: n1\nLong\nMark: n2\n"

KINDS = ["edit_append", "inject_mark", "inject_uod", "ctl:Start", "ctl:Stop", "ctl:Pause", "ctl:Unpause", "ctl:Hold",
         "ctl:Unhold", "ctl:Restart", "ctl:Short", "cancel", "force"]
PAIRS = [("inject_mark", "ctl:Pause"), ("edit_append", "inject_mark"), ("ctl:Stop", "inject_uod"), ("cancel", "ctl:Hold"),
         ("edit_append", "ctl:Short"), ("force", "inject_mark"), ("ctl:Pause", "ctl:Unpause"), ("edit_append", "cancel")]

MECH = {"edit_append": "C40.set_method_unlocked", "set_method_first": "C40.set_method_unlocked",
        "inject_mark": "C40.inject_code_unlocked", "inject_uod": "C40.inject_code_unlocked",
        "cancel": "C40.cancel_instruction_unlocked", "force": "C40.force_instruction_unlocked"}


def mech_for(kind):
    if kind.startswith("ctl:"):
        return "C40.control_command_unlocked"
    return MECH.get(kind)


# ---------------------------------------------------------------------------------------------------------------
def gen_methods(rnd: random.Random, n: int):
    """Extra seeded bases for the thorough tier (no persistently true Alarm, constant inputs)."""
    from opv.gen_pcode import Gen
    out = []
    for i in range(n):
        g = Gen(rnd, allow=("mark", "uod", "wait", "block", "watch", "macro", "thr", "pausehold", "counter", "info"),
                max_depth=2, watch_conds=("FT01 > 3 L/h", "X = 0", "Run Counter >= 0", "Block Time > 0.3 s"),
                thr_values=("0.2", "0.5", "1", "0"))
        text = g.program(rnd.randint(3, 7))
        ft = rnd.choice([0.0, 6.0])
        out.append({"name": f"gen{i}", "text": text, "ft": ft, "ticks": sorted(rnd.sample(range(2, 14), 3))})
    return out


def plan(tier, seed):
    rnd = random.Random(seed * 7919 + 17)
    bases = [dict(b) for b in CORPUS]
    if tier != "quick":
        # generated bases get the exhaustive one-preemption space + sampled request-internal preemptions ("j": "sample")
        bases += [dict(b, j="sample") for b in gen_methods(rnd, 8)]
    triples = []
    for b in bases:
        for k in b["ticks"]:
            for kind in b.get("kinds", KINDS):
                triples.append({"base": b, "k": k, "kinds": [kind]})
    # two-request cases (seeded choice of base/tick per pair)
    gen_bases = [b for b in bases if "kinds" not in b]
    for n, pair in enumerate(PAIRS * (1 if tier == "quick" else 4)):
        b = gen_bases[rnd.randrange(len(gen_bases))]
        triples.append({"base": b, "k": rnd.choice(b["ticks"]), "kinds": list(pair)})
    shards = 16 if tier == "quick" else 48
    out = [{"seed": seed * 1000003 + s, "tier": tier, "cases": [], "lost": s == 0} for s in range(shards)]
    # heavy kinds (edits) spread evenly: round robin over a stable order
    for n, t in enumerate(triples):
        out[n % shards]["cases"].append(t)
    return out


# ---------------------------------------------------------------------------------------------------------------
def _norm(s: str) -> str:
    return UUID_RE.sub("<id>", str(s))[:160]


class Base:
    """One fresh engine brought to just before tick k of the base."""

    def __init__(self, b, k):
        from opv.rigs import engine_rig as R
        self.R = R
        self.b = b
        self.k = k
        self.rig = R.EngineRig(b["text"], hooks=False)
        self.rig.hw.inputs["FT01"] = b.get("ft", 0.0)
        pre = b.get("pre", {0: ["ctl:Start"]})
        pre = {int(t): v for t, v in pre.items()}
        for t in range(0, k):
            for a in pre.get(t, []):
                assert a.startswith("ctl:")
                self.rig.user(a[4:])
            if t + 1 < k:
                self.rig.tick(catch=True)
        # now self.rig.k == k-1 ticks done; the controlled tick is tick number k

    def request_fn(self, kind):
        """Builds the callable of a request against this engine. Returns (fn, description) or (None, why)."""
        rig, R, e = self.rig, self.R, self.rig.e
        if kind == "edit_append":
            lines = self.b["text"].split("\n")
            if lines and lines[-1] == "":
                lines = lines[:-1]
            new = [(f"L{i}", c) for i, c in enumerate(lines)] + [("Lnew", "Mark: zzE")]
            m = R.method_from_lines(new, version=1)
            return (lambda: e.set_method(m)), "set_method(append `Mark: zzE`)"
        if kind == "set_method_first":
            m = R.to_method(FIRST_METHOD)
            return (lambda: e.set_method(m)), "set_method(new method)"
        if kind == "inject_mark":
            return (lambda: e.inject_code("Mark: zzI")), "inject_code('Mark: zzI')"
        if kind == "inject_uod":
            return (lambda: e.inject_code("Other")), "inject_code('Other')"
        if kind.startswith("ctl:"):
            name = kind[4:]
            return (lambda: e.execute_control_command_from_user(name)), f"execute_control_command_from_user({name!r})"
        if kind in ("cancel", "force"):
            try:
                items = rig.runlog().items
            except Exception:
                return None, "run log not producible"
            attr = "cancellable" if kind == "cancel" else "forcible"
            done = ("Completed", "Failed", "Cancelled")
            cands = [it for it in items if getattr(it, attr) and str(it.state).capitalize() not in done
                     and not it.cancelled and not it.forced]
            if not cands:
                return None, f"no {attr} item"
            iid = cands[0].id
            nm = cands[0].name
            if kind == "cancel":
                return (lambda: e.cancel_instruction(iid)), f"cancel_instruction(<{nm}>)"
            return (lambda: e.force_instruction(iid)), f"force_instruction(<{nm}>)"
        raise ValueError(kind)

    def signature(self):
        rig = self.rig
        ms = rig.e.method_manager.get_method_state()
        return (len(rig.cmdlog), str(rig.e.tags["Mark"].get_value()), len(ms.executed_line_ids), len(ms.started_line_ids),
                len(ms.failed_line_ids), rig.state, len(rig.errors), len(rig.e.interpreter.runtimeinfo.records))

    def finish(self, horizon, settle=8):
        """Single-threaded continuation to the horizon. Returns True if the last `settle` ticks changed nothing."""
        rig = self.rig
        last_change = rig.k
        sig = self.signature()
        while rig.k < horizon:
            rig.tick(catch=True)
            s2 = self.signature()
            if s2 != sig:
                sig = s2
                last_change = rig.k
        return rig.k - last_change >= settle

    def outcome(self):
        rig = self.rig
        e = rig.e
        per: dict = {}
        for (_t, phase, name, iid, it) in rig.cmdlog:
            per.setdefault(name, {}).setdefault(iid, []).append(f"{phase}{it if phase == 'exec' else ''}")
        cmds = {name: [" ".join(v) for v in d.values()] for name, d in sorted(per.items())}
        ms = e.method_manager.get_method_state()
        try:
            items = sorted((it.name, str(it.state), bool(it.cancelled), bool(it.forced), bool(it.failed))
                           for it in rig.runlog().items)
            runlog = [list(x) for x in items]
        except Exception as ex:  # C15 territory: compare the fact, not the details
            runlog = ["EXC " + type(ex).__name__]
        cm = e._command_manager
        out = {
            "marks": rig.marks(),
            "cmds": cmds,
            "method_state": [sorted(ms.executed_line_ids), sorted(ms.started_line_ids), sorted(ms.failed_line_ids),
                             len(ms.injected_line_ids)],
            "run_state": [rig.state, str(e.tags["Method Status"].get_value()), e._runstate_started, e._runstate_paused,
                          e._runstate_holding, e._runstate_stopping, e.tags["Run Id"].get_value() is not None],
            "runlog": runlog,
            "hw": {k: rig.hw.mem.get(k) for k in ("Out1", "Out2", "Plain")},
            "errors": [[t, _norm(m)] for (_k, t, m) in rig.errors],
            "tick_exc": [_norm(m) for (_k, m) in rig.tick_exc],
            "wiring": [e._interpreter is e._method_manager._interpreter, e._tracking is e._interpreter.tracking,
                       cm.tracking is e._tracking, e._method_manager._program is e._interpreter._program],
            "pending": [sorted(r.name for r in list(cm.cmd_queue.queue)), sorted(r.name for r in cm.cmd_executing),
                        sorted(e.uod.command_instances.keys()), len(e._interpreter._interrupts_map)],
            "method_version": e.method_manager._method.version,
        }
        return out

    def close(self):
        self.rig.close()


def _wrap_request(fn):
    def run():
        try:
            r = fn()
            return ["ok", _norm(r)]
        except Exception as ex:
            return ["exc", type(ex).__name__, _norm(ex)]
    return run


def run_schedule(b, k, kinds, horizon, order, switch_at, first, on_finish=None):
    """One fresh run under one schedule. Returns dict(outcome=..., sched info) or dict(skip=why)."""
    from opv.rigs import thread_rig as T
    base = Base(b, k)
    try:
        fns = []
        descs = []
        for kind in kinds:
            fn, d = base.request_fn(kind)
            if fn is None:
                return {"skip": d}
            fns.append(fn)
            descs.append(d)
        bodies = {"T1": (lambda: base.rig.tick())}
        for n, fn in enumerate(fns):
            bodies[f"T{n + 2}"] = _wrap_request(fn)
        sched = T.run_controlled(base.rig.e, bodies, order, switch_at, first, budget=BUDGET, on_finish=on_finish)
        lock = sched.lock
        info = {
            "counts": dict(sched.count), "errors": dict(sched.errors), "aborted": sched.aborted,
            "watchdog": sched.watchdog, "switches": [list(s) for s in sched.switches], "noop": sched.noop_preemptions,
            "acquired_by": list(lock.acquired_by), "blocked": list(lock.blocked_log), "finished": list(sched.finished),
            "steps": sched.steps, "descs": descs, "overlap": overlap_info(sched, list(bodies)),
            "throws": sum(1 for e in sched.events if e[3].endswith("<throw>")),
            "replies": {n: sched.results.get(n) for n in bodies if n != "T1"},
        }
        if sched.watchdog:
            return {"info": info, "watchdog": True}
        hang = sched.aborted
        settled = True
        if not hang:
            settled = base.finish(horizon)
        out = base.outcome()
        out["replies"] = info["replies"]
        out["thread_exc"] = {n: _norm(m) for n, m in sorted(sched.errors.items())}
        out["hang"] = hang
        return {"info": info, "outcome": out, "settled": settled}
    finally:
        base.close()


def base_length(b):
    """Quiescent length of the base alone (ticks)."""
    base = Base(b, 1)
    try:
        sig = None
        last = 0
        for _ in range(160):
            base.rig.tick(catch=True)
            s2 = base.signature()
            if s2 != sig:
                sig = s2
                last = base.rig.k
            if base.rig.k - last > 25:
                break
        return last
    finally:
        base.close()


def _diff(a, b):
    return sorted(k for k in set(a) | set(b) if a.get(k) != b.get(k))


def overlap_info(sched, names):
    """For each request thread: did it run unlocked while the tick thread was inside the region protected by
    engine._lock?  True iff the thread never acquired the lock and (one of its yield points was executed while T1 owned
    the lock, or a yield point of T1 executed under the lock lies between its first yield point and its return)."""
    out = {}
    ev = sched.events
    for th in names:
        if th == "T1":
            continue
        mine = [e for e in ev if e[1] == th]
        if not mine or th in sched.lock.acquired_by:
            out[th] = False
            continue
        s0, s1 = mine[0][0], sched.finish_step.get(th, mine[-1][0])
        out[th] = any(e[4] == "T1" for e in mine) or any(e[1] == "T1" and e[4] == "T1" and s0 < e[0] <= s1 for e in ev)
    return out


def classify(kinds, info):
    """Narrow classifier: names the unlocked entry point(s), i.e. the kind of every request that executed inside the
    tick's locked region without ever taking engine._lock. One key per distinct entry point (a two-request schedule in
    which two different unlocked entry points overlapped the tick is reported under both, so that a new unlocked entry
    point is never hidden behind a listed one); none -> [None]."""
    mechs = sorted({mech_for(kind) for n, kind in enumerate(kinds) if info["overlap"].get(f"T{n + 2}")} - {None})
    return mechs or [None]


def check_triple(t, res: Result, rnd: random.Random, tier: str, lengths: dict):
    b, k, kinds = t["base"], t["k"], t["kinds"]
    if b["name"] not in lengths:
        lengths[b["name"]] = base_length(b)
    L = lengths[b["name"]]
    horizon = k + 2 * L + 20
    names = ["T1"] + [f"T{n + 2}" for n in range(len(kinds))]
    case0 = {"base": b, "k": k, "kinds": kinds, "horizon": horizon}

    # ---- serial references, through the same threaded harness, no preemption
    import itertools
    serial = {}
    for perm in itertools.permutations(names):
        r = run_schedule(b, k, kinds, horizon, list(perm), {}, perm[0])
        if "skip" in r:
            res.count("skipped_no_target_item")
            return
        if r.get("watchdog"):
            raise RuntimeError("wall-clock watchdog fired in a serial run: " + str(case0)[:300])
        serial[perm] = r
    res.count("serial_pairs")
    for perm, r in serial.items():
        o = r["outcome"]
        if o["hang"] or o["thread_exc"] or not r["settled"]:
            # the serial order itself misbehaves: not an interleaving matter; count and do not judge this triple
            res.count("serial_run_not_clean")
            res.notes.append(f"serial run not clean: {b['name']} k={k} {kinds} order={perm} hang={o['hang']} "
                             f"exc={o['thread_exc']} settled={r['settled']}")
            return
    allowed = [r["outcome"] for r in serial.values()]
    tick_first = serial[tuple(names)]
    n1 = tick_first["info"]["counts"]["T1"]
    res.count("tick_yield_points", n1)

    def judge(r, sw, label, fin_=None):
        info = r["info"]
        if r.get("watchdog"):
            raise RuntimeError("wall-clock watchdog fired: " + str(case0)[:300] + str(sw))
        o = r["outcome"]
        res.count("yield_points_seen", info["steps"])
        if info["throws"]:
            res.count("py_throw_yield_points", info["throws"])
        t1_sw = [s for s in info["switches"] if s[0] == "T1"]
        inside = any(s[3] == "T1" for s in t1_sw)
        if inside:
            res.count("preempted_inside_tick_lock")
        elif t1_sw:
            res.count("preempted_outside_tick_lock")
        if t1_sw:
            res.count("request_ran_interleaved")
        if info["blocked"]:
            res.count("request_blocked_on_lock")
        if info["noop"]:
            res.count("preemption_noop_target_blocked", info["noop"])
        case = dict(case0, switch_at=sw, label=label, on_finish=fin_)
        key = (b["name"], k, tuple(kinds), label) if t1_sw else None
        res.case(key, sample={"base": b["name"], "k": k, "kinds": kinds, "schedule": label,
                              "switches": info["switches"], "marks": o["marks"][:10], "replies": o["replies"]})
        viol = None
        if o["hang"]:
            viol = f"hang: {o['hang']}"
        elif o["thread_exc"]:
            viol = f"exception escaped a thread: {o['thread_exc']}"
        elif not r["settled"]:
            res.count("not_settled_at_horizon")
            return
        else:
            res.count("oracle_comparisons")
            if o not in allowed:
                diffs = [_diff(o, a) for a in allowed]
                best = min(range(len(allowed)), key=lambda n: len(diffs[n]))
                f = diffs[best][0]
                viol = (f"outcome equals no serial order; nearest serial order {list(serial)[best]} differs in "
                        f"{diffs[best]}: {f}: interleaved={str(o[f])[:260]} serial={str(allowed[best][f])[:260]}")
        if viol:
            where = [(s[0], s[1], s[4], "lock held by " + str(s[3])) for s in info["switches"]]
            for mech in classify(kinds, info):
                res.violation(mech, f"{b['name']} tick {k} request {info['descs']} schedule {where}: {viol}", case)
            res.count("divergent_schedules")
            for kind in kinds:
                res.count("divergent_with_" + kind.replace(":", "_"))

    # ---- one preemption (exhaustive): tick preempted at i, all requests run back to back there
    if len(kinds) == 1:
        n2max = 0
        t2counts = {}
        for i in range(1, n1 + 1):
            sw = {"T1": {i: "T2"}}
            r = run_schedule(b, k, kinds, horizon, names, sw, "T1")
            res.count("schedules_one_preemption")
            judge(r, sw, f"i={i}")
            t2counts[i] = r["info"]["counts"].get("T2", 0)
            n2max = max(n2max, t2counts[i])
        res.count("request_yield_points_max", n2max)
        # ---- two preemptions: request preempted at j, tick continues (until it finishes or blocks), request resumes
        for i in range(1, n1 + 1):
            js = list(range(1, t2counts[i] + 1))
            if tier == "quick" or b.get("j") == "sample":
                js = sorted(rnd.sample(js, min(len(js), 1))) if (i % 3 == rnd.randrange(3)) else []
            elif len(js) > 40:
                js = sorted(rnd.sample(js, 40))
            for j in js:
                sw = {"T1": {i: "T2"}, "T2": {j: "T1"}}
                r = run_schedule(b, k, kinds, horizon, names, sw, "T1")
                res.count("schedules_two_preemptions")
                judge(r, sw, f"i={i},j={j}")
    else:
        pairs = [(i1, i2) for i1 in range(1, n1 + 1) for i2 in range(i1, n1 + 1)]
        take = 40 if tier == "quick" else 150
        if len(pairs) > take:
            pairs = sorted(rnd.sample(pairs, take))
        for i1, i2 in pairs:
            if i1 == i2:
                sw, fin = {"T1": {i1: "T2"}}, {"T2": "T3"}      # both requests back to back at one preemption point
            else:
                sw, fin = {"T1": {i1: "T2", i2: "T3"}}, None
            r = run_schedule(b, k, kinds, horizon, names, sw, "T1", fin)
            res.count("schedules_two_requests")
            judge(r, sw, f"i1={i1},i2={i2}", fin)


LOST_CASES = [
    # (base name, tick before which both requests arrive back to back, first request, second request, expected effect)
    ("stopped_idle", 2, "ctl:Start", "set_method_first", "started"),
    ("marks_long_wait", 5, "ctl:Other", "edit_append", "cmd:Other"),
    ("marks_long_wait", 5, "ctl:Pause", "edit_append", "paused"),
    ("watch_waiting", 4, "ctl:Hold", "edit_append", "holding"),
]


def check_lost(res: Result):
    """'None lost', serial form (no interleaving needed): a user command that was accepted and is still queued when a
    set_method arrives before the next tick must still take effect. Control: the same two requests in the other order."""
    for bname, k, r1, r2, expect in LOST_CASES:
        b = next(x for x in CORPUS if x["name"] == bname)
        for order in ((r1, r2), (r2, r1)):
            base = Base(b, k)
            try:
                e = base.rig.e
                replies = []
                cm_before = e._command_manager
                queued_then_dropped = False
                for kind in order:
                    fn, _d = base.request_fn(kind)
                    replies.append(_wrap_request(fn)())
                    if kind == r1:
                        cm_before = e._command_manager
                    elif order[0] == r1:
                        names_old = [r.name for r in list(cm_before.cmd_queue.queue)]
                        cm_new = e._command_manager
                        names_new = [r.name for r in list(cm_new.cmd_queue.queue)] + [r.name for r in cm_new.cmd_executing]
                        queued_then_dropped = (cm_new is not cm_before and r1[4:] in names_old and r1[4:] not in names_new)
                base.finish(k + 60)
                o = base.outcome()
                ok = {"started": o["run_state"][2] and o["run_state"][6],
                      "paused": o["run_state"][3], "holding": o["run_state"][4],
                      "cmd:Other": "Other" in o["cmds"]}[expect]
                res.count("lost_request_checks")
                res.case(("lost", bname, order), sample={"base": bname, "k": k, "requests": list(order), "replies": replies,
                                                         "run_state": o["run_state"], "cmds": o["cmds"]})
                if all(r[0] == "ok" for r in replies) and not ok:
                    mech = "C40.queued_request_dropped_by_interpreter_reset" if queued_then_dropped else None
                    res.violation(mech, f"{bname}: requests {list(order)} arrive back to back before tick {k}, both are "
                                  f"accepted, but the effect '{expect}' of {r1} never appears (run_state={o['run_state']}, "
                                  f"cmds={o['cmds']}); queued request dropped with the replaced CommandManager: "
                                  f"{queued_then_dropped}", {"lost": [bname, k, list(order), expect]})
            finally:
                base.close()


def run_shard(spec):
    res = Result()
    rnd = random.Random(spec["seed"])
    lengths: dict = {}
    if spec.get("lost"):
        check_lost(res)
    for t in spec["cases"]:
        check_triple(t, res, rnd, spec.get("tier", "quick"), lengths)
    res.exhaustive_parts.append(
        "one-preemption schedules: for every (corpus base, tick k, request kind) of this tier, every yield point i of "
        "tick k as the single preemption point of the tick thread (request runs to completion or until it blocks on "
        "engine._lock, then the tick resumes)")
    if spec.get("tier") != "quick":
        res.exhaustive_parts.append("two-preemption schedules (i, j) on the hand-written corpus bases: every i and every "
                                    "request yield point j (capped at 40 sampled j per i when the request has more)")
    return res


def replay(case):
    res = Result()
    if "lost" in case:
        check_lost(res)
        return res
    b, k, kinds = case["base"], case["k"], case["kinds"]
    names = ["T1"] + [f"T{n + 2}" for n in range(len(kinds))]
    import itertools
    allowed = {}
    for perm in itertools.permutations(names):
        allowed[perm] = run_schedule(b, k, kinds, case["horizon"], list(perm), {}, perm[0])["outcome"]
    sw = {n: {int(i): t for i, t in d.items()} for n, d in case["switch_at"].items()}
    r = run_schedule(b, k, kinds, case["horizon"], names, sw, "T1", case.get("on_finish"))
    o = r["outcome"]
    print("schedule:", r["info"]["switches"], "lock acquired by", r["info"]["acquired_by"], "blocked", r["info"]["blocked"])
    for perm, a in allowed.items():
        print("serial", perm, "differs in", _diff(o, a))
        for f in _diff(o, a):
            print("   ", f, "interleaved:", str(o[f])[:300])
            print("   ", " " * len(f), "serial     :", str(a[f])[:300])
    if o["hang"] or o["thread_exc"] or o not in list(allowed.values()):
        for mech in classify(kinds, r["info"]):
            res.violation(mech, "outcome equals no serial order / hang / exception", case)
    res.case("replay")
    return res
