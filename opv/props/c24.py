"""C24 - No lost or stale hardware writes after an outage.

The real ErrorRecoveryDecorator wraps a recording fake; `hardware_recovery.time` is a virtual clock.  Every *new*
commanded value is unique per (register, change) and encodes the index of the cycle in which it was created; the
harness keeps, per register, the history of commanded values as value epochs (an epoch = consecutive cycles that
command the same value), so each hardware-level write identifies the command epoch it stems from - also when the
re-command symbols bring an earlier value back (the write is then attributed to the latest epoch with that value).
Deciding observations are taken at the fake only:
 (i)  per register, the epoch indices of the values that reach the hardware never decrease;
 (ii) after every write cycle that returned without exception, with the decorator in OK and in which the fake raised
      nothing, the fake's register file holds the most recently commanded value of every register.
Decorator internals (pending_writes) are read only to *name the mechanism* of a violation, never to decide one.

Two families of enumerated sequences: (a) all sequences up to length L from the OK state (default time-outs, "advance
past time-out" symbols); (b) deep starts: a fixed prefix drives the real decorator into Issue / Reconnect / Error (with
and without buffered values, on and just before the time-out boundaries; time-outs of 1 s and 2 s, advance symbol = 1 s)
and all suffixes up to length L are enumerated from there.  The oracle is the same for both and also runs over the prefix.
"""
from __future__ import annotations

import itertools

from opv.core import Result

ID = "C24"
LEVEL = "fault_enumeration"
TECHNIQUE = ("runtime monitoring: last-writer model over the fake hardware's write log with unique, cycle-stamped "
             "values, over exhaustively enumerated cycle/fault sequences")
RULE = ("all sequences of exactly length L (all prefixes are checked, so 'length <= L') over the alphabet {cycle with "
        "all values new, cycle with unchanged values, cycle with only register 0 new / only the last register new (>= 2 "
        "registers), toggle total "
        "write/read failure, toggle failure of every register but the first (>= 2 registers), advance past "
        "reconnect_timeout, tick with reconnect ok, tick with reconnect fail, [thorough: advance past error_timeout, "
        "successful/failing read cycle]}; 1-3 registers; only_write_modified_values on/off; write_batch and per-register "
        "write. Re-command family: the same from OK plus the cycle symbols Cr (every register commands again the value "
        "last written successfully to the hardware for it) and Cb (every register commands again the value it commanded "
        "before its current one), so that a commanded value can return to an earlier one during / after a failure. "
        "Deep starts: for each fixed prefix in DEEP_PREFIXES (Issue, Issue with a partly written batch, Issue on the "
        "reconnect boundary, Reconnect just entered / on the error boundary, each with and without buffered values, Error "
        "with and without buffered values) all suffixes of exactly length L over {the cycle symbols, F, P, advance 1 s, "
        "tick with reconnect ok/fail, read cycle} with reconnect_timeout = 1 s and error_timeout = 2 s, so that k advance "
        "symbols land before / on / after each time-out. evaluations = sequences; distinct non-trivial = distinct (config, sequence of decorator states and "
        "hardware write outcomes) containing at least one failed hardware write followed by a later clean cycle")
ASSUMPTIONS = [
    "trusted base: the recording fake (keeps its register file across outages, a failing call changes nothing), the "
    "virtual clock bound to hardware_recovery.time",
    "'a write cycle succeeds' = the cycle returned without exception, the decorator is in OK afterwards and no "
    "hardware call made during the cycle failed",
    "'never written after a newer value' = per register the first-commanded cycle index of successive successful "
    "hardware writes is non-decreasing",
    "values are ints, so the float tolerance of filter_write_values plays no role",
    "with re-commanded values a hardware write of value v is attributed to the LATEST value epoch of the register that "
    "commanded v: it cannot be told from a write of that command and leaves the hardware in the state that command "
    "asked for, so only a write whose every possible source epoch is older than the newest epoch already written "
    "counts as 'written after a newer value'; rule (ii) is unchanged (register file = last commanded values)",
    "a sequence is abandoned at its first violation (later effects would be consequences of it)",
    "inspect.getmembers_static, called twice by every ErrorRecoveryDecorator constructor to forward extra public methods "
    "of the concrete hardware (irrelevant here: the fake has none), is memoised per (class, instance attribute names) from "
    "the harness - it is a pure function of those for objects without callable instance attributes; the first calls of "
    "every key are compared with the real function (counter inspect_memo_verified). Speed only.",
    "deep starts: a prefix is a fixed head of the sequence over the same symbols; whether it really left the decorator "
    "in the intended state is counted (deep_start_in_intended_state / deep_start_elsewhere), not assumed",
]
REQUIRED = {"sequences": 50000, "clean_cycle_checks": 100000, "hw_writes_checked": 200000, "recoveries_then_clean_cycle": 5000,
            "pending_flush_writes": 200,
            "deep_sequences": 500000, "deep_start_in_intended_state": 500000, "deep_clean_cycle_checks": 50000,
            "deep_start:issue": 50000, "deep_start:issue_boundary": 50000, "deep_start:issue_partial": 10000,
            "deep_start:reconnect": 50000, "deep_start:reconnect_late": 50000, "deep_start:reconnect_nopend": 50000,
            "deep_start:reconnect_nopend_late": 50000, "deep_start:error": 50000, "deep_start:error_nopend": 50000,
            "cycles_entering_error_with_new_value": 50000, "recoveries_from_error_then_clean_cycle": 5000,
            "recoveries_after_error_entered_with_new_value_then_2_clean_cycles": 500, "inspect_memo_verified": 16,
            "recommand_alphabet_sequences": 400000, "cycles_recommanding_last_written_value": 20000,
            "cycles_recommanding_previous_value": 40000, "recommand_while_other_value_buffered": 40000,
            "recommand_during_outage": 40000, "hw_writes_of_a_recommanded_value": 15000}
EXHAUSTIVE_ALL = True

T0 = 1_700_000_000.0
KNOWN = "C24.stale_pending_after_recovery"


def _alphabet(nreg, tier_extra, reuse=False):
    a = ["Cn", "Cs"]
    if reuse:
        a += ["Cr", "Cb"]
    if nreg >= 2:
        a += ["Cp", "Cq"]
    a.append("F")
    if nreg >= 2:
        a.append("P")
    a += ["A", "T+", "T-"]
    if tier_extra:
        a += ["E", "R"]
    return a


# deep starts: name -> (prefix over the deep alphabet, state the real decorator is expected to be in afterwards, min registers)
# time-outs: reconnect 1 s, error 2 s; "t" advances 1 s. `last + timeout < now` is strict, so one t = on the boundary.
DEEP_RT, DEEP_ET = 1, 2
DEEP_PREFIXES = {
    "issue":                   (["Cn", "F", "Cn"], "Issue", 1),                 # all values buffered, hardware failing
    "issue_partial":           (["Cn", "P", "Cn"], "Issue", 2),                 # R0 reached the hardware, the rest did not
    "issue_boundary":          (["Cn", "F", "Cn", "t"], "Issue", 1),            # exactly on the reconnect time-out
    "reconnect":               (["Cn", "F", "Cn", "t", "t", "Cn"], "Reconnect", 1),             # just entered, values buffered
    "reconnect_late":          (["Cn", "F", "Cn", "t", "t", "Cn", "t", "t"], "Reconnect", 1),   # exactly on the error time-out
    "reconnect_nopend":        (["Cn", "F", "R", "t", "t", "R"], "Reconnect", 1),               # entered by reads, nothing buffered
    "reconnect_nopend_late":   (["Cn", "F", "R", "t", "t", "R", "t", "t"], "Reconnect", 1),
    "error":                   (["Cn", "F", "Cn", "t", "t", "Cn", "t", "t", "t", "Cn"], "Error", 1),   # buffered values
    "error_nopend":            (["Cn", "F", "R", "t", "t", "R", "t", "t", "t", "R"], "Error", 1),
}


def _deep_alphabet(nreg, reuse=False):
    a = ["Cn", "Cs"]
    if reuse:
        a += ["Cr", "Cb"]
    if nreg >= 2:
        a += ["Cp", "Cq"]
    a.append("F")
    if nreg >= 2:
        a.append("P")
    return a + ["t", "T+", "T-", "R"]


def _alpha_of(c):
    if c.get("deep"):
        return _deep_alphabet(c["nreg"], c.get("reuse", False))
    return _alphabet(c["nreg"], c["extra"], c.get("reuse", False))


def _deep_configs(tier):
    q = tier == "quick"
    out = []
    for name, (_, _, minreg) in DEEP_PREFIXES.items():
        for owm in (True, False):
            if minreg <= 1:
                out.append(({"nreg": 1, "owm": owm, "api": "batch", "extra": False, "deep": name}, 5 if q else 7))
                out.append(({"nreg": 1, "owm": owm, "api": "single", "extra": False, "deep": name}, 5 if q else 6))
            out.append(({"nreg": 2, "owm": owm, "api": "batch", "extra": False, "deep": name}, 4 if q else 5))
        out.append(({"nreg": 2, "owm": True, "api": "single", "extra": False, "deep": name}, 3 if q else 5))
        # the same start with the re-command symbols Cr / Cb in the suffix alphabet
        if minreg <= 1:
            for api in ("batch", "single"):
                out.append(({"nreg": 1, "owm": True, "api": api, "extra": False, "deep": name, "reuse": True}, 4 if q else 6))
            out.append(({"nreg": 1, "owm": False, "api": "batch", "extra": False, "deep": name, "reuse": True}, 4 if q else 5))
        out.append(({"nreg": 2, "owm": True, "api": "batch", "extra": False, "deep": name, "reuse": True}, 3 if q else 4))
    return out


def _reuse_configs(tier):
    """From the OK state with the re-command symbols: Cr = command again the value last written successfully to the
    register, Cb = command again the value commanded before the current one."""
    q = tier == "quick"
    out = []
    for owm in (True, False):
        out.append(({"nreg": 1, "owm": owm, "api": "batch", "extra": False, "reuse": True}, (6 if owm else 5) if q else 7))
        out.append(({"nreg": 1, "owm": owm, "api": "single", "extra": False, "reuse": True}, 5 if q else 7))
        out.append(({"nreg": 2, "owm": owm, "api": "batch", "extra": False, "reuse": True}, 4 if q else (6 if owm else 5)))
    out.append(({"nreg": 2, "owm": True, "api": "single", "extra": False, "reuse": True}, 4 if q else 5))
    out.append(({"nreg": 1, "owm": True, "api": "batch", "extra": True, "reuse": True}, 5 if q else 6))
    return out


def _configs(tier):
    """(config, L). config: nreg, owm, api, extra"""
    q = tier == "quick"
    out = []
    for owm in (True, False):
        out.append(({"nreg": 1, "owm": owm, "api": "batch", "extra": False}, 6 if q else 8))
        out.append(({"nreg": 1, "owm": owm, "api": "single", "extra": False}, 6 if q else 7))
        out.append(({"nreg": 2, "owm": owm, "api": "batch", "extra": False}, 5 if q else (7 if owm else 6)))
        out.append(({"nreg": 3, "owm": owm, "api": "batch", "extra": False}, 4 if q else 5))
    out.append(({"nreg": 2, "owm": True, "api": "single", "extra": False}, 5 if q else 6))
    out.append(({"nreg": 1, "owm": True, "api": "batch", "extra": True}, 6 if q else 7))
    out.append(({"nreg": 2, "owm": True, "api": "batch", "extra": True}, 4 if q else 5))
    return out


def plan(tier, seed):
    jobs = []
    for c, L in _configs(tier) + _reuse_configs(tier) + _deep_configs(tier):
        a = _alpha_of(c)
        k = 1 if tier == "quick" else 2
        plen = len(DEEP_PREFIXES[c["deep"]][0]) if c.get("deep") else 0
        for first in itertools.product(range(len(a)), repeat=k):
            jobs.append((len(a) ** (L - k) * (plen + L), c, L, list(first)))
    nshards = 16 if tier == "quick" else 48
    jobs.sort(key=lambda j: -j[0])
    shards = [{"seed": seed, "tier": tier, "jobs": [], "w": 0} for _ in range(nshards)]
    for w, c, L, first in jobs:
        s = min(shards, key=lambda x: x["w"])
        s["jobs"].append({"c": c, "L": L, "first": first})
        s["w"] += w
    return [s for s in shards if s["jobs"]]


class _VT:
    t = T0

    @staticmethod
    def time():
        return _VT.t


class _InspectMemo:
    """Stand-in for the `inspect` module inside hardware_recovery: everything is delegated, getmembers_static is
    memoised (see ASSUMPTIONS). The first VERIFY calls per key are checked against the real function."""
    VERIFY = 5

    def __init__(self):
        import inspect
        self._i = inspect
        self._memo: dict = {}
        self.verified = 0
        self.mismatch = 0

    def __getattr__(self, name):
        return getattr(self._i, name)

    def getmembers_static(self, obj, predicate=None):
        d = getattr(obj, "__dict__", None)
        if d is None or any(callable(v) for v in d.values()):
            return self._i.getmembers_static(obj, predicate)
        key = (type(obj), tuple(sorted(d)), getattr(predicate, "__code__", predicate))
        hit = self._memo.get(key)
        if hit is None or hit[1] < self.VERIFY:
            real = self._i.getmembers_static(obj, predicate)
            if hit is None:
                # only members found on the class are position-independent; anything else disables the memo for this key
                if any(name in d for name, _ in real):
                    return real
                self._memo[key] = [real, 1]
            else:
                self.verified += 1
                if [(n, m) for n, m in real] != [(n, m) for n, m in hit[0]]:
                    self.mismatch += 1
                    return real
                hit[1] += 1
            return real
        return list(hit[0])


_env = {}


def _setup():
    if _env:
        return _env
    import logging
    logging.disable(logging.CRITICAL)
    from openpectus.engine import hardware_recovery as HR
    from openpectus.engine.hardware import HardwareLayerBase, HardwareLayerException, Register, RegisterDirection
    from openpectus.lang.exec.tags import Tag, SystemTagName
    HR.time = _VT
    HR.inspect = _InspectMemo()

    class RecHW(HardwareLayerBase):
        """mode 0: everything works; 1: every read/write fails; 2: every register but the first fails.
        write_batch/read_batch are the base-class loops over write/read (as for most concrete hardware layers)."""

        def __init__(self):
            super().__init__()
            self.mode = 0
            self.cfail = False
            self.mem: dict = {}
            self.ev: list = []     # (kind, name, value, ok) of the current decorator call

        def read(self, r):
            if self.mode == 1 or self.mode == 2 and r.name != "R0":
                self.ev.append(("r", r.name, None, False))
                raise HardwareLayerException("scripted read failure")
            self.ev.append(("r", r.name, None, True))
            return self.mem.get(r.name)

        def write(self, v, r):
            if self.mode == 1 or self.mode == 2 and r.name != "R0":
                self.ev.append(("w", r.name, v, False))
                raise HardwareLayerException("scripted write failure")
            self.mem[r.name] = v
            self.ev.append(("w", r.name, v, True))

        def connect(self):
            if self.cfail:
                self.ev.append(("c", None, None, False))
                raise HardwareLayerException("scripted connect failure")
            super().connect()
            self.ev.append(("c", None, None, True))

    _env.update(HR=HR, HW=RecHW, HLE=HardwareLayerException, Register=Register, Dir=RegisterDirection, Tag=Tag,
                tagname=str(SystemTagName.CONNECTION_STATUS))
    return _env


def run_sequence(env, c, seq, cnt, info):
    """Returns list of (mech, msg). info collects (signature, nontrivial)."""
    HR = env["HR"]
    HLE = env["HLE"]
    _VT.t = T0
    hw = env["HW"]()
    nreg = c["nreg"]
    regs = [env["Register"](f"R{j}", env["Dir"].Both) for j in range(nreg)]
    for r in regs:
        hw.registers[r.name] = r
    hw.connect()
    hw.ev.clear()
    tag = env["Tag"](env["tagname"], value="Disconnected")
    cfg = HR.ErrorRecoveryConfig()
    cfg.only_write_modified_values = c["owm"]
    deep = c.get("deep")
    plen = 0
    if deep:
        cfg.reconnect_timeout_seconds = DEEP_RT
        cfg.error_timeout_seconds = DEEP_ET
        plen = len(DEEP_PREFIXES[deep][0])
    d = HR.ErrorRecoveryDecorator(hw, cfg, tag)
    d.reconnect_backoff_ticks = list(range(64))
    advR = cfg.reconnect_timeout_seconds + 1
    advE = cfg.error_timeout_seconds + 1
    batch = c["api"] == "batch"
    commanded: dict = {}                      # name -> current commanded value  (a new value = cycle*8 + j, cycle >= 1)
    # Command history per register as *epochs*: a new epoch starts whenever the commanded value differs from the one of
    # the cycle before. Without the re-command symbols every epoch has a fresh value, so the epoch order is the order of
    # the creation cycles. Cr / Cb bring an earlier value back: a hardware write of value v is then attributed to the
    # LATEST epoch that commanded v (most charitable reading - the write cannot be told from a write of that command).
    epochs: dict = {r.name: [] for r in regs}
    last_written_epoch = {r.name: -1 for r in regs}
    survivors: dict = {}                      # name -> pending value that outlived a successful write of its register
    viol = []
    sig = []
    had_failed_write = False
    recovered_pending = False                 # there was an outage (state left OK) since the last clean cycle
    nontrivial = False
    via_error = False                         # the decorator has been in Error since the last clean cycle
    error_entered_with_new_value = False      # ... and entered it in a write cycle that commanded a new value
    clean_after_that = 0

    def after_call(i, a):
        """Inspect what the fake saw during one decorator call: rule (i) + mechanism bookkeeping."""
        nonlocal had_failed_write
        pend_before = after_call.pend_before
        for kind, name, v, ok in hw.ev:
            if kind != "w":
                continue
            if not ok:
                had_failed_write = True
                continue
            cnt["hw_writes_checked"] = cnt.get("hw_writes_checked", 0) + 1
            cyc = v >> 3
            if f"R{v & 7}" != name:
                viol.append(("C24.value_written_to_wrong_register", f"value {v} commanded for register R{v & 7} (cycle {cyc}) "
                             f"was written to register {name}; at event #{i} {a} of {'/'.join(seq)} {c}"))
                continue
            from_pending = pend_before.get(name) == v and v != after_call.direct.get(name)
            if from_pending:
                cnt["pending_flush_writes"] = cnt.get("pending_flush_writes", 0) + 1
            after_call.last_write[name] = (i, from_pending)
            if not from_pending:
                after_call.direct_written.add(name)
            eps = [e for e, val in enumerate(epochs[name]) if val == v]
            if not eps:
                viol.append(("C24.never_commanded_value_written", f"register {name}: value {v} was written to the hardware but "
                             f"never commanded for it; at event #{i} {a} of {'/'.join(seq)} {c}"))
                continue
            ep = eps[-1]
            if len(eps) > 1:
                cnt["hw_writes_of_a_recommanded_value"] = cnt.get("hw_writes_of_a_recommanded_value", 0) + 1
            if ep < last_written_epoch[name]:
                if survivors.get(name) == v and pend_before.get(name) == v:
                    mech = KNOWN
                elif pend_before.get(name) == v:
                    mech = "C24.pending_value_written_after_newer_value"
                else:
                    mech = "C24.older_value_written_after_newer_value"
                viol.append((mech, f"register {name}: value {v} (created in cycle {cyc}, last commanded in value epoch {ep}) "
                                   f"written to hardware after the value of epoch {last_written_epoch[name]} (created in "
                                   f"cycle {epochs[name][last_written_epoch[name]] >> 3}; commanded now: epoch "
                                   f"{len(epochs[name]) - 1}, value created in cycle {commanded.get(name, 0) >> 3}); value came from pending_writes={pend_before.get(name) == v}, entry had survived a "
                                   f"successful write of the register={survivors.get(name) == v}; at event #{i} {a} of "
                                   f"{'/'.join(seq)} {c}"))
            else:
                last_written_epoch[name] = ep
        # mechanism bookkeeping only: pending entries that are still there although their register was just written
        now_pending = {r.name: v for r, v in d.pending_writes.items()}
        written_ok = {name for kind, name, v, ok in hw.ev if kind == "w" and ok}
        for name in list(survivors):
            if now_pending.get(name) != survivors[name]:
                del survivors[name]
        for name, v in now_pending.items():
            if name in written_ok:
                survivors[name] = v
                cnt["pending_entry_outlived_write_of_its_register"] = cnt.get("pending_entry_outlived_write_of_its_register", 0) + 1

    after_call.pend_before = {}
    after_call.direct = {}
    after_call.direct_written = set()         # registers written with the cycle's own value in the current cycle
    after_call.last_write = {}                # name -> (event index, came from pending_writes) of the last successful write
    for i, a in enumerate(seq):
        k = a[0]
        if k == "C":
            cyc = i + 1
            prev_cmd = dict(commanded)
            after_call.direct_written = set()
            if a == "Cn" or not commanded:
                for j, r in enumerate(regs):
                    commanded[r.name] = cyc * 8 + j
            elif a == "Cp":
                commanded["R0"] = cyc * 8
            elif a == "Cq":
                commanded[regs[-1].name] = cyc * 8 + nreg - 1
            elif a == "Cr":
                # every register commands again the value that was last written successfully to the hardware for it
                for j, r in enumerate(regs):
                    m = hw.mem.get(r.name)
                    if m is not None and (m & 7) == j and m in epochs[r.name]:
                        commanded[r.name] = m
            elif a == "Cb":
                # every register commands again the value it commanded before its current one (previous value epoch)
                for r in regs:
                    if len(epochs[r.name]) >= 2:
                        commanded[r.name] = epochs[r.name][-2]
            values = [commanded[r.name] for r in regs]
            new_value = any(commanded[n] != prev_cmd.get(n) for n in commanded)
            pend0 = {x.name: v for x, v in d.pending_writes.items()}
            for r in regs:
                v = commanded[r.name]
                if not epochs[r.name] or epochs[r.name][-1] != v:
                    if v in epochs[r.name]:
                        kk = "cycles_recommanding_last_written_value" if a == "Cr" else "cycles_recommanding_previous_value"
                        cnt[kk] = cnt.get(kk, 0) + 1
                        if pend0.get(r.name) not in (None, v):
                            cnt["recommand_while_other_value_buffered"] = cnt.get("recommand_while_other_value_buffered", 0) + 1
                        if d.state.name != "OK":
                            cnt["recommand_during_outage"] = cnt.get("recommand_during_outage", 0) + 1
                    epochs[r.name].append(v)
            raised = None
            any_hw_fail = False
            calls = [(values, regs)] if batch else [([v], [r]) for v, r in zip(values, regs)]
            state_before = d.state.name
            for vs, rs in calls:
                hw.ev.clear()
                after_call.pend_before = {r.name: v for r, v in d.pending_writes.items()}
                after_call.direct = {r.name: v for v, r in zip(vs, rs)}
                try:
                    if batch:
                        d.write_batch(list(vs), list(rs))
                    else:
                        d.write(vs[0], rs[0])
                except HLE as ex:
                    raised = ex
                except Exception as ex:  # noqa
                    raised = ex
                    viol.append(("C24.unexpected_exception", f"{type(ex).__name__}: {ex} at event #{i} {a} of {'/'.join(seq)} {c}"))
                if any(not ok for _, _, _, ok in hw.ev):
                    any_hw_fail = True
                after_call(i, a)
                if viol:
                    break
            st = d.state.name
            cnt["cycles"] = cnt.get("cycles", 0) + 1
            sig.append((a, st, raised is not None, any_hw_fail))
            if st == "Error":
                via_error = True
                if state_before != "Error" and new_value:
                    error_entered_with_new_value = True
                    clean_after_that = 0
                    cnt["cycles_entering_error_with_new_value"] = cnt.get("cycles_entering_error_with_new_value", 0) + 1
            if not viol and raised is None and st == "OK" and not any_hw_fail:
                cnt["clean_cycle_checks"] = cnt.get("clean_cycle_checks", 0) + 1
                if i >= plen and deep:
                    cnt["deep_clean_cycle_checks"] = cnt.get("deep_clean_cycle_checks", 0) + 1
                if via_error:
                    via_error = False
                    cnt["recoveries_from_error_then_clean_cycle"] = cnt.get("recoveries_from_error_then_clean_cycle", 0) + 1
                if error_entered_with_new_value:
                    clean_after_that += 1
                    if clean_after_that == 2:
                        error_entered_with_new_value = False
                        k2 = "recoveries_after_error_entered_with_new_value_then_2_clean_cycles"
                        cnt[k2] = cnt.get(k2, 0) + 1
                if recovered_pending:
                    cnt["recoveries_then_clean_cycle"] = cnt.get("recoveries_then_clean_cycle", 0) + 1
                    recovered_pending = False
                    if had_failed_write:
                        nontrivial = True
                for r in regs:
                    if hw.mem.get(r.name) != commanded[r.name]:
                        got = hw.mem.get(r.name)
                        pend = {x.name: v for x, v in d.pending_writes.items()}
                        lw = after_call.last_write.get(r.name)
                        if got is not None and f"R{got & 7}" != r.name:
                            mech = "C24.value_written_to_wrong_register"
                        elif lw is not None and lw[0] == i and lw[1] and r.name not in after_call.direct_written \
                                and commanded[r.name] in epochs[r.name][:-1]:
                            # this cycle wrote nothing of what it commanded for the register (a re-commanded earlier value,
                            # filtered as 'not modified') but flushed the buffered value of an older epoch over it
                            mech = "C24.buffered_value_flushed_over_filtered_recommanded_value"
                        elif pend.get(r.name) == commanded[r.name]:
                            mech = "C24.commanded_value_still_pending_after_clean_cycle"
                        else:
                            mech = "C24.commanded_value_lost"
                        viol.append((mech, f"after a clean cycle in OK register {r.name} holds {got} (created in cycle "
                                           f"{(got or 0) >> 3}) but the engine last commanded {commanded[r.name]} (created in "
                                           f"cycle {commanded[r.name] >> 3}, value epochs of the register: "
                                           f"{epochs[r.name]}); pending={pend}; at event #{i} {a} of {'/'.join(seq)} {c}"))
                        break
            elif st != "OK" or any_hw_fail or state_before != "OK":
                recovered_pending = True
        else:
            hw.ev.clear()
            after_call.pend_before = {r.name: v for r, v in d.pending_writes.items()}
            after_call.direct = {}
            try:
                if a == "F":
                    hw.mode = 0 if hw.mode == 1 else 1
                elif a == "P":
                    hw.mode = 0 if hw.mode == 2 else 2
                elif a == "A":
                    _VT.t += advR
                elif a == "E":
                    _VT.t += advE
                elif a == "t":
                    _VT.t += 1.0
                elif a == "T+" or a == "T-":
                    hw.cfail = a == "T-"
                    d.tick()
                elif a == "R":
                    d.read_batch(list(regs)) if batch else [d.read(r) for r in regs]
            except HLE:
                pass
            after_call(i, a)
            if d.state.name != "OK":
                recovered_pending = True
            if d.state.name == "Error":
                via_error = True
            sig.append((a, d.state.name))
        if deep and i == plen - 1 and not viol:
            ok = d.state.name == DEEP_PREFIXES[deep][1]
            k2 = "deep_start_in_intended_state" if ok else "deep_start_elsewhere"
            cnt[k2] = cnt.get(k2, 0) + 1
        if viol:
            break
    info.append((tuple(sig[plen:]), nontrivial))
    return viol


def run_shard(spec):
    res = Result()
    env = _setup()
    cnt: dict = {}
    seen: set = set()
    for job in spec["jobs"]:
        c, L, first = job["c"], job["L"], job["first"]
        alpha = _alpha_of(c)
        deep = c.get("deep")
        prefix = list(DEEP_PREFIXES[deep][0]) if deep else []
        head = prefix + [alpha[i] for i in first]
        ckey = (c["nreg"], c["owm"], c["api"], deep, bool(c.get("reuse")))
        n = 0
        for tail in itertools.product(alpha, repeat=L - len(first)):
            seq = head + list(tail)
            info: list = []
            viol = run_sequence(env, c, seq, cnt, info)
            n += 1
            sig, nontrivial = info[0]
            key = None
            if nontrivial:
                k = (ckey, sig)
                if k not in seen:
                    seen.add(k)
                    key = k
            res.case(key, sample={"config": c, "seq": seq, "signature": [list(x) for x in sig]} if key and len(res.samples) < 6 else None)
            for mech, msg in viol:
                res.violation(mech, msg, {"c": c, "seq": seq})
        cnt["sequences"] = cnt.get("sequences", 0) + n
        if c.get("reuse"):
            cnt["recommand_alphabet_sequences"] = cnt.get("recommand_alphabet_sequences", 0) + n
        if deep:
            cnt["deep_sequences"] = cnt.get("deep_sequences", 0) + n
            cnt["deep_start:" + deep] = cnt.get("deep_start:" + deep, 0) + n
        part = (f"all {len(alpha)}^{L} sequences of length {L} (all prefixes checked) over {'/'.join(alpha)}, registers={c['nreg']}, "
                f"only_write_modified_values={c['owm']}, api={c['api']}")
        if deep:
            part += (f", after the fixed prefix {'/'.join(prefix)} (deep start '{deep}', reconnect_timeout={DEEP_RT}s, "
                     f"error_timeout={DEEP_ET}s, t = 1 s)")
        if part not in res.exhaustive_parts:
            res.exhaustive_parts.append(part)
    memo = env["HR"].inspect
    cnt["inspect_memo_verified"] = memo.verified
    if memo.mismatch:
        cnt["inspect_memo_mismatch"] = memo.mismatch
        res.notes.append("inspect memo mismatch: the memoised getmembers_static differed from the real one")
    for k, n in cnt.items():
        res.count(k, n)
    return res


def replay(case):
    res = Result()
    env = _setup()
    info: list = []
    for mech, msg in run_sequence(env, case["c"], case["seq"], {}, info):
        res.violation(mech, msg, case)
    res.case(None)
    return res
