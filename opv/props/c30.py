"""C30 - Each run yields exactly one recent run and one plot log.

Row counts per run id in PlotLogs / RecentRuns after every message of enumerated mutated histories, on the real
aggregator with a scratch SQLite file (see DESIGN.md C30)."""
from __future__ import annotations

import asyncio
import random

from opv.core import Result

ID = "C30"
LEVEL = "exploration"
TECHNIQUE = "runtime monitoring: per-message row-count invariant (PlotLogs, RecentRuns per run id) over enumerated histories"
RULE = ("base histories of <= 8 engine messages (B1 one run with 3 tag batches; B2 two consecutive runs; B3 a run with "
        "no tag batch) mutated by every single and every ordered pair (thorough: also every triple on B1/B2/B3 and "
        "pairs on a two-engine interleaving B4; both tiers: seeded random chains of 4-6 on B1-B4) of {duplicate a run-started, duplicate a "
        "run-stopped, swap two adjacent messages, disconnect + re-register} at every position after the websocket "
        "connect; duplicates removed by content. distinct = the history; non-trivial = differs from its base by more "
        "than the mutual order of tag batches (a notification is duplicated or displaced, or the engine reconnects)")
ASSUMPTIONS = [
    "at most one: after every message no run id has more than one PlotLogs row or more than one RecentRuns row",
    "exactly one: at the end of a history every run whose run-started and run-stopped were each delivered at least once "
    "has exactly one PlotLogs row and exactly one RecentRuns row (all base histories stop every run)",
    "a run-started that arrives after its run-stopped is judged like any other history (the quantifier names reordered "
    "notifications)",
    "contents of the plot log / recent run (e.g. data lost after a premature store) are not judged here, only row counts",
    "classifier inputs (active run of the engine before each message) are read from Aggregator.get_registered_engine_data",
]
REQUIRED = {"histories": 1000, "count_checks": 10000, "end_checks": 1000, "dup_run_started_delivered": 500,
            "dup_run_stopped_delivered": 500, "reconnects": 300, "histories_with_reordered_notifications": 100}
EXHAUSTIVE_ALL = False

E1, E2 = "E1", "E2"


def _b(e, *items):
    out = [["reg", e], ["conn", e], ["uod", e]]
    k = 0
    for it in items:
        if it[0] == "t":
            k += 1
            out.append(["tags", e, it[1], k])
        else:
            out.append([it[0], e, it[1]])
    return out


def base(name):
    if name == "B1":
        return _b(E1, ("start", "R1"), ("t", "R1"), ("t", "R1"), ("t", "R1"), ("stop", "R1"))
    if name == "B2":
        return _b(E1, ("start", "R1"), ("t", "R1"), ("stop", "R1"), ("start", "R2"), ("stop", "R2"))
    if name == "B3":
        return _b(E1, ("start", "R1"), ("stop", "R1"))
    if name == "B4":  # two engines, interleaved
        a = _b(E1, ("start", "R1"), ("t", "R1"), ("stop", "R1"))
        b = _b(E2, ("start", "Q1"), ("t", "Q1"), ("stop", "Q1"))
        out = []
        for x, y in zip(a, b):
            out += [x, y]
        return out
    raise ValueError(name)


def ops_for(h):
    first_ok = {}
    for i, m in enumerate(h):
        if m[0] == "conn":
            first_ok.setdefault(m[1], i + 1)
    runs = []
    for m in h:
        if m[0] == "start" and (m[1], m[2]) not in runs:
            runs.append((m[1], m[2]))
    ops = []
    for p in range(len(h) + 1):
        for e, r in runs:
            if p >= first_ok.get(e, 10 ** 9):
                ops.append(["dupstart", p, e, r])
                ops.append(["dupstop", p, e, r])
        for e, ok in first_ok.items():
            if p >= ok:
                ops.append(["disc", p, e])
        if p + 1 < len(h) and h[p][0] not in ("reg", "conn") and h[p + 1][0] not in ("reg", "conn") \
                and p >= first_ok.get(h[p][1], 10 ** 9) and p >= first_ok.get(h[p + 1][1], 10 ** 9) and h[p] != h[p + 1]:
            ops.append(["swap", p])
    return ops


def apply(h, op):
    h = [list(m) for m in h]
    if op[0] == "dupstart":
        h.insert(op[1], ["start", op[2], op[3]])
    elif op[0] == "dupstop":
        h.insert(op[1], ["stop", op[2], op[3]])
    elif op[0] == "disc":
        h.insert(op[1], ["disc", op[2]])
    elif op[0] == "swap":
        p = op[1]
        h[p], h[p + 1] = h[p + 1], h[p]
    return h


def enumerate_histories(name, depth):
    b = base(name)
    seen = {_key(b)}
    out = [b]
    frontier = [b]
    for _ in range(depth):
        nxt = []
        for h in frontier:
            for op in ops_for(h):
                h2 = apply(h, op)
                k = _key(h2)
                if k not in seen:
                    seen.add(k)
                    nxt.append(h2)
        out += nxt
        frontier = nxt
    return out


def _key(h):
    return tuple(tuple(m) for m in h)


def plan(tier, seed):
    specs = []
    if tier == "quick":
        for name, depth, parts in (("B1", 2, 5), ("B2", 2, 8), ("B3", 2, 2)):
            specs += [{"mode": "enum", "base": name, "depth": depth, "part": i, "of": parts} for i in range(parts)]
        specs.append({"mode": "random", "seed": seed * 1000003 + 1, "n": 150, "bases": ["B1", "B2", "B3", "B4"]})
    else:
        for name, depth, parts in (("B1", 3, 12), ("B2", 3, 24), ("B3", 3, 4), ("B4", 2, 8)):
            specs += [{"mode": "enum", "base": name, "depth": depth, "part": i, "of": parts} for i in range(parts)]
        specs += [{"mode": "random", "seed": seed * 1000003 + 1 + i, "n": 800, "bases": ["B1", "B2", "B3", "B4"]}
                  for i in range(4)]
    return specs


def _tokens(h):
    return [("tags",) if m[0] == "tags" else tuple(m) for m in h]


async def run_history(hist, base_name, res: Result, rig):
    from opv.rigs.aggregator_rig import reg_msg, uod_info_msg, tags_msg, run_started_msg, run_stopped_msg

    rig.wipe()
    eids: dict[str, str] = {}
    started_delivered: dict[str, int] = {}     # run id -> deliveries of run-started
    stopped_delivered: dict[str, int] = {}
    closed: set[str] = set()                   # runs that were the aggregator's active run and then ceased to be
    reopened: set[str] = set()                 # runs opened again by a run-started after they were closed
    stop_before_open: set[str] = set()         # run-stopped delivered while that run was not the active run and not closed
    viol: list[tuple] = []
    prev_pl: dict[str, int] = {}
    prev_rr: dict[str, int] = {}
    flagged: set[tuple] = set()

    def active(e):
        ed = rig.engine_data(eids.get(e, ""))
        return ed.run_data.run_id if ed is not None and ed.has_run() else None

    async def reconnect(e):
        eid = await rig.register(reg_msg(e, "uod"))
        if eid is None:
            return False
        eids[e] = eid
        await rig.connect(eid)
        return True

    for i, m in enumerate(hist):
        kind, e = m[0], m[1]
        pre_active = active(e) if e in eids else None
        if kind == "reg":
            eid = await rig.register(reg_msg(e, "uod"))
            if eid is not None:
                eids[e] = eid
        elif kind == "conn":
            await rig.connect(eids[e])
        elif kind == "uod":
            await rig.send(uod_info_msg(eids[e], ["T1"], 0.5))
        elif kind == "disc":
            res.count("reconnects")
            await rig.disconnect(eids[e])
            await reconnect(e)
            await rig.send(uod_info_msg(eids[e], ["T1"], 0.5))
        elif kind == "start":
            r = m[2]
            started_delivered[r] = started_delivered.get(r, 0) + 1
            if started_delivered[r] > 1:
                res.count("dup_run_started_delivered")
            await rig.send(run_started_msg(eids[e], r, 1000.0))
        elif kind == "stop":
            r = m[2]
            stopped_delivered[r] = stopped_delivered.get(r, 0) + 1
            if stopped_delivered[r] > 1:
                res.count("dup_run_stopped_delivered")
            if pre_active != r and r not in closed:
                stop_before_open.add(r)
            await rig.send(run_stopped_msg(eids[e], r))
        elif kind == "tags":
            await rig.send(tags_msg(eids[e], m[2], [("T1", 1000.0 + m[3], float(m[3]))]))
        if rig.handler_errors:
            res.count("handler_raised_not_judged")
            rig.handler_errors.clear()
        post_active = active(e) if e in eids else None
        if pre_active is not None and post_active != pre_active:
            closed.add(pre_active)
        if kind == "start" and m[2] in closed and pre_active != m[2] and post_active == m[2]:
            reopened.add(m[2])
            closed.discard(m[2])
        pl, rr = rig.run_row_counts()
        res.count("count_checks")
        for r, c in pl.items():
            if c > 1 and c > prev_pl.get(r, 0) and ("pl", r) not in flagged:
                flagged.add(("pl", r))
                mech = None
                if kind == "start" and m[2] == r:
                    if pre_active == r:
                        mech = "C30.duplicate_run_started_while_run_active_creates_plot_log"
                    elif r in reopened:
                        mech = "C30.run_started_after_run_ended_reopens_run"
                viol.append((mech, f"{c} PlotLogs rows for run {r} after message #{i} {m} (active run before: "
                                   f"{pre_active})"))
        for r, c in rr.items():
            if c > 1 and c > prev_rr.get(r, 0) and ("rr", r) not in flagged:
                flagged.add(("rr", r))
                mech = "C30.run_started_after_run_ended_reopens_run" if r in reopened else None
                viol.append((mech, f"{c} RecentRuns rows for run {r} after message #{i} {m} (active run before: "
                                   f"{pre_active}; run had been re-opened by a late run-started: {r in reopened})"))
        prev_pl, prev_rr = pl, rr
    # ---- end of history: exactly one
    res.count("end_checks")
    for r in sorted(set(started_delivered) & set(stopped_delivered)):
        c_pl, c_rr = prev_pl.get(r, 0), prev_rr.get(r, 0)
        if c_pl == 0:
            viol.append((None, f"no PlotLogs row for run {r} at the end of the history"))
        if c_rr == 0:
            still_open = any(active(e) == r for e in eids)
            mech = ("C30.run_stopped_before_run_started_leaves_run_open"
                    if still_open and r in stop_before_open else None)
            viol.append((mech, f"no RecentRuns row for run {r} at the end of the history (run still open in the "
                               f"aggregator: {still_open}; a run-stopped for it arrived before it was opened: "
                               f"{r in stop_before_open})"))
    b = base(base_name)
    nontrivial = _tokens(hist) != _tokens(b)
    res.count("histories")
    res.case({"h": hist} if nontrivial else None,
             sample={"base": base_name, "history": hist, "plot_logs": prev_pl, "recent_runs": prev_rr})
    for mech, msg in viol:
        res.violation(mech, msg, {"base": base_name, "history": hist})


def _count_swapped_notifications(hist, base_name):
    """number of start/stop notifications whose order relative to the base's notification order is inverted"""
    b = [tuple(m) for m in base(base_name) if m[0] in ("start", "stop")]
    seq = []
    for m in hist:
        t = tuple(m)
        if t in b and t not in seq:
            seq.append(t)
    return sum(1 for x, y in zip(seq, [t for t in b if t in seq]) if x != y)


async def _shard(spec, res):
    from opv.rigs.aggregator_rig import AggregatorRig
    rig = AggregatorRig()
    try:
        if spec["mode"] == "enum":
            hs = enumerate_histories(spec["base"], spec["depth"])
            mine = hs[spec["part"]::spec["of"]]
            for h in mine:
                if _count_swapped_notifications(h, spec["base"]):
                    res.count("histories_with_reordered_notifications")
                await run_history(h, spec["base"], res, rig)
            if spec["part"] == 0:
                res.exhaustive_parts.append(
                    f"all {len(hs)} distinct histories reachable from {spec['base']} by <= {spec['depth']} mutation ops "
                    f"(dup run-started / dup run-stopped / adjacent swap / disconnect+re-register at every position)")
        else:
            rnd = random.Random(spec["seed"])
            for _ in range(spec["n"]):
                name = rnd.choice(spec["bases"])
                h = base(name)
                for _ in range(rnd.randint(4, 6)):
                    ops = ops_for(h)
                    h = apply(h, ops[rnd.randrange(len(ops))])
                if _count_swapped_notifications(h, name):
                    res.count("histories_with_reordered_notifications")
                res.count("random_chain_histories")
                await run_history(h, name, res, rig)
    finally:
        rig.close()


def run_shard(spec):
    res = Result()
    asyncio.run(_shard(spec, res))
    return res


def replay(case):
    from opv.rigs.aggregator_rig import AggregatorRig
    res = Result()

    async def go():
        rig = AggregatorRig()
        try:
            await run_history(case["history"], case["base"], res, rig)
        finally:
            rig.close()
    asyncio.run(go())
    return res
