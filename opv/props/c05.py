"""C05 - Blocks nest and end correctly; Block tag names the active block.

Quiescent-point invariant (every tick end) over the real program tree + Block tag, and event rules over the
lock_acquired / block_ended / started / completed / interrupt_registered transitions recorded by the engine-rig
descriptors (see DESIGN.md C05). "Active" is lock_acquired and not block_ended.
"""
from __future__ import annotations

import random

from opv.core import Result
from opv.gen_pcode import Gen, trajectory, shape_hash
from opv.rigs.interrupt_hooks import install, QUIET

ID = "C05"
LEVEL = "exploration"
TECHNIQUE = ("runtime monitoring: tick-end invariant on the set of active blocks and the Block tag plus event rules on "
             "block lock/end transitions of generated runs")
RULE = ("seeded P-code generator (nested and sequential Block to depth 4, End block / End blocks in block bodies, in "
        "Watch/Alarm bodies and at arbitrary places, Watch/Alarm inside and outside blocks, blocks started from "
        "interrupt bodies, Wait, thresholds, UOD commands, macros in a minority) x scripted FT01 trajectory; about one "
        "case in six also has a Restart / Stop (+Start) issued by the user or by the method. distinct = shape hash of "
        "the method text x run-control variant; non-trivial = at least two blocks acquired the lock, or an End "
        "block(s) was executed by an interrupt, or a block ended with a registered Watch/Alarm inside")
ASSUMPTIONS = [
    "a block is active when lock_acquired and not block_ended (the lock flag is dropped one tick after End block)",
    "'innermost' / 'End block ends exactly the innermost active block' are read dynamically: whichever path (main "
    "or interrupt) executes End block, the innermost active block at that instant is the one that must end. "
    "Exception, counted and not judged: an End block that ends nothing while a deeper block has ended but still "
    "holds its lock flag (a second End block arriving within the one-tick lag of the first)",
    "'instructions after a block' = later siblings of the Block line in the same scope; they may start only while "
    "that block's block_ended flag is set",
    "'together with its pending Watches and Alarms' = a Watch/Alarm inside the block that was registered when the "
    "block ended is not registered at any later tick end, and no line below a Watch/Alarm of an ended block is "
    "executed (a bare started flag without execution is counted, not judged). A Watch/Alarm whose line had started "
    "before the end and which registers afterwards was not pending: counted, not judged",
    "the Block tag is compared at tick ends only; None and '' both mean empty; it is also compared while the system "
    "is Stopped / Restarting (no block is active then)",
    "a block that acquires the lock although an enclosing block has already ended (its line had started before) is "
    "not covered by the statement: counted (lock_acquired_inside_ended_block), not judged",
    "observation through data descriptors / method wrappers installed from the harness (opv/rigs/interrupt_hooks.py)",
]
REQUIRED = {"tick_end_checks": 40000, "ticks_with_active_block": 12000, "ticks_with_nested_active_blocks": 5000,
            "lock_acquisitions": 2000, "nested_lock_acquisitions": 1000, "end_block_checks": 1000,
            "end_block_by_interrupt": 600, "end_blocks_checks": 400, "sibling_after_block_checks": 1500,
            "block_end_with_registered_interrupt": 400, "run_boundaries": 100,
            "run_boundaries_with_active_block": 20}


class Gen5(Gen):
    """Gen + many more blocks + End block / End blocks as ordinary statements anywhere."""

    def __init__(self, *a, run_control=None, **kw):
        super().__init__(*a, **kw)
        self.run_control = run_control

    def stmt(self, ind, depth, in_block, no_blank=False):
        r = self.r
        x = r.random()
        if depth < self.max_depth and x < 0.2:
            self.kinds.append("block")
            self.emit(ind, f"Block: b{self.lab()}")
            self.body(ind + 4, depth + 1, True, 4)
            y = r.random()
            if y < 0.75:
                self.emit(ind + 4, r.choice(["End block", "End block", "End block", "End blocks"]))
            elif y < 0.9:
                self.emit(ind + 4, f"Watch: {self.watch_cond()}")
                self.emit(ind + 8, r.choice(["End block", "End blocks"]))
            # else: no End block of its own - ended from elsewhere or never
            return
        if x < 0.2 + (0.09 if in_block else 0.03):
            self.kinds.append("endblock")
            self.emit(ind, r.choice(["End block", "End block", "End blocks"]))
            return
        if self.run_control and depth <= 1 and x > 0.985:
            self.kinds.append("runctl")
            self.emit(ind, self.run_control)
            return
        return super().stmt(ind, depth, in_block, no_blank)


def gen_case(rnd: random.Random, max_depth: int = 4):
    allow = ["mark", "mark", "uod", "wait", "block", "watch", "alarm", "thr", "blank"]
    if rnd.random() < 0.15:
        allow.append("macro")
    variant = "none"
    v = rnd.random()
    if v < 0.05:
        variant = "method_restart"
    elif v < 0.08:
        variant = "method_stop"
    elif v < 0.14:
        variant = "user_restart"
    elif v < 0.18:
        variant = "user_stop_start"
    g = Gen5(rnd, allow=tuple(allow), max_depth=max_depth,
             run_control={"method_restart": "Restart", "method_stop": "Stop"}.get(variant),
             watch_conds=("FT01 > 3 L/h", "FT01 > 1 L/h", "X = 0", "Run Counter >= 0", "Block Time > 0.3 s",
                          "FT01 < 3 L/h", "FT01 >= 5 L/h", "Block Time > 1 s"),
             alarm_conds=("FT01 > 3 L/h", "FT01 >= 5 L/h", "X = 1", "FT01 < 1 L/h", "Block Time > 0.5 s"),
             thr_values=("0.2", "0.5", "1", "0", "0.3"), wait_values=("0.1", "0.3", "0.5", "0.8", "0"),
             uod_cmds=("Short", "Long", "Short", "Set1: 3"))
    text = g.program(rnd.randint(3, 8))
    if variant.startswith("method") and "runctl" not in g.kinds:
        text += {"method_restart": "Restart", "method_stop": "Stop"}[variant] + "\n"
    traj = trajectory(rnd, 200)
    ctl = []
    if variant == "user_restart":
        ctl.append({"tick": rnd.randint(4, 60), "cmd": "Restart"})
    elif variant == "user_stop_start":
        t = rnd.randint(4, 60)
        ctl.append({"tick": t, "cmd": "Stop"})
        ctl.append({"tick": t + rnd.randint(2, 8), "cmd": "Start"})
    elif variant == "method_stop":
        ctl.append({"tick": rnd.randint(30, 90), "cmd": "Start"})     # start again if the method stopped the run
    return {"text": text, "traj": traj, "ctl": ctl, "variant": variant}


def _chain(blocks):
    return all((a in b.parents) or (b in a.parents) for i, a in enumerate(blocks) for b in blocks[i + 1:])


def _nm(b):
    return f"{b.id}:{b.name}"


def check_case(case, res: Result):
    from opv.rigs import engine_rig as R
    import openpectus.lang.model.ast as p

    install()
    text = case["text"]
    rig = R.EngineRig(text)
    viol: list[tuple] = []
    keep_alive = []        # every program object seen (Restart/Stop re-parse): keeps id() values unique
    try:
        ctl = {}
        for c in case.get("ctl", ()):
            ctl.setdefault(c["tick"], []).append(c["cmd"])
        rig.start()
        prog = rig.program()
        keep_alive.append(prog)
        blocks_of = {id(prog): [n for n in prog.get_all_nodes() if isinstance(n, p.BlockNode)]}
        conds_in = {}
        last_ev = rig.k
        seen = len(R.TRACE)
        stale_tag = None          # Block tag value left over by the end of the previous run
        prev_tag = None           # Block tag at the end of the previous tick
        boundaries = 0
        max_ticks = 170
        min_ticks = max([c["tick"] for c in case.get("ctl", ())] + [0]) + 25
        snaps = []                # tick-end snapshots, judged after the event walk (classification needs the events)
        while rig.k < max_ticks:
            T = rig.k + 1
            for cmd in ctl.get(T, ()):
                rig.user(cmd)
                last_ev = rig.k
            rig.hw.inputs["FT01"] = case["traj"][min(T - 2, len(case["traj"]) - 1)]
            rig.tick()
            tr = R.TRACE
            if any(tr[i][1] not in QUIET for i in range(seen, len(tr))) or (rig.cmdlog and rig.cmdlog[-1][0] == rig.k):
                last_ev = rig.k
            seen = len(tr)
            if rig.errors:
                break
            # ---------------- tick-end snapshot
            prog = rig.program()
            boundary = False
            if id(prog) not in blocks_of:
                keep_alive.append(prog)
                blocks_of[id(prog)] = [n for n in prog.get_all_nodes() if isinstance(n, p.BlockNode)]
                boundaries += 1
                res.count("run_boundaries")
                boundary = True
            blocks = blocks_of[id(prog)]
            active = [b for b in blocks if b.lock_acquired and not b.block_ended]
            lag = [b for b in blocks if b.lock_acquired and b.block_ended]      # ended, lock not yet released
            tag = rig.tag("Block")
            if boundary:
                # the run ended in this tick (Stop / Restart re-parse the method): a non-empty tag is a leftover now
                stale_tag = tag if tag not in (None, "") else None
                if prev_tag not in (None, ""):
                    # a block was active (named by the tag) at the end of the tick before the run ended
                    res.count("run_boundaries_with_active_block")
            elif stale_tag is not None and tag != stale_tag:
                stale_tag = None
            prev_tag = tag
            reg_in_ended = []
            for b in blocks:
                if b.block_ended:
                    cs = conds_in.get(id(b))
                    if cs is None:
                        cs = conds_in[id(b)] = [d for d in b.get_child_nodes(recursive=True)
                                                if isinstance(d, p.NodeWithCondition)]
                    reg_in_ended += [(w, b) for w in cs if w.interrupt_registered]
            snaps.append({"tick": rig.k, "active": active, "lag": lag, "tag": tag, "state": rig.state,
                          "stale_tag": stale_tag if boundaries else None, "reg_in_ended": reg_in_ended,
                          "blocks": blocks})
            if rig.k >= min_ticks and rig.k - last_ev >= 20:
                break

        # ---------------- event rules
        trace = list(R.TRACE)
        errored = bool(rig.errors)
        err_tick = rig.errors[0][0] if errored else 10 ** 9
        if errored:
            res.count("runs_ending_in_error")
        nodes = {}
        for pr in keep_alive:
            for n in pr.get_all_nodes():
                nodes[id(n)] = n
        st: dict[int, dict] = {}

        def S(pid):
            s = st.get(pid)
            if s is None:
                s = st[pid] = {"lock_acquired": False, "block_ended": False, "completed": False, "started": False,
                               "interrupt_registered": False, "stale": False, "reset_while_active": None,
                               "rereg_after_abort": None, "foreign_unreg_tick": None}
            return s
        active_set: dict[int, object] = {}     # pyid -> block node, in event order
        pending_ended = []                      # block_ended events of the End block(s) visit in progress
        active_before_pending = None
        ctx = None
        prev = None
        acquired = 0
        by_interrupt = 0
        after_block_end = []
        mac_active: dict[str, int] = {}
        mac_max: dict[str, int] = {}
        blockend_pending = 0

        def classify(mech, n):
            """Re-classification of violations that are instances of the interpreter defects already recorded for C02
            (narrow: the offending node must lie in a scope that demonstrably went through that mechanism)."""
            chain = [n] + list(n.parents)
            mac = next((a for a in chain if isinstance(a, p.MacroNode)), None)
            if mac is not None and mac_max.get(mac.macro_name, 0) >= 2:
                return "C05.concurrent_calls_share_macro_body"
            for x in chain:
                if isinstance(x, p.NodeWithCondition) and S(id(x))["stale"] and any(
                        isinstance(a, (p.AlarmNode, p.MacroNode)) for a in x.parents):
                    return "C05.interrupt_survives_reset_of_enclosing_scope"
                if isinstance(x, p.BlockNode) and S(id(x))["reset_while_active"] is not None:
                    return "C05.interrupt_survives_reset_of_enclosing_scope"
            return mech

        for idx, ev in enumerate(trace):
            tick, field, nid, cls, old, new, pid = ev
            if tick > err_tick:
                break
            if field == "h_enter":
                ctx = pid
                continue
            if field == "h_exit":
                ctx = None
                continue
            n = nodes.get(pid)
            if n is None:
                prev = ev
                continue
            s = S(pid)
            if field in ("lock_acquired", "block_ended", "completed", "started", "interrupt_registered"):
                s[field] = new
            if field not in ("block_ended", "children_complete", "interrupt_registered", "unreg_call", "completed"):
                pending_ended = []
                active_before_pending = None
            if isinstance(n, p.BlockNode) and field in ("lock_acquired", "block_ended"):
                was_active = pid in active_set
                now_active = s["lock_acquired"] and not s["block_ended"]
                if field == "block_ended" and new is True:
                    if active_before_pending is None:
                        active_before_pending = list(active_set.values())
                    pending_ended.append(n)
                    inside = [d for d in n.get_child_nodes(recursive=True) if isinstance(d, p.NodeWithCondition)
                              and S(id(d))["interrupt_registered"]]
                    if inside:
                        res.count("block_end_with_registered_interrupt")
                        blockend_pending += 1
                        for d in inside:
                            S(id(d)).setdefault("pending_at_block_end", tick)
                if field == "lock_acquired" and new is False and not s["block_ended"]:
                    # the lock flag of a block that has not ended is cleared: reset_runtime_state of an enclosing
                    # Alarm / macro scope while an interrupt is still executing this block
                    if s["reset_while_active"] is None:
                        s["reset_while_active"] = tick          # first time; sticky
                    res.count("active_block_reset_by_enclosing_scope")
                if field == "lock_acquired" and new is True:
                    res.count("lock_acquisitions")
                    acquired += 1
                    others = [b for b in active_set.values() if b is not n]
                    if others:
                        res.count("nested_lock_acquisitions")
                    if ctx is not None:
                        res.count("lock_acquired_in_interrupt")
                    if any(isinstance(a, p.BlockNode) and S(id(a))["block_ended"] for a in n.parents):
                        res.count("lock_acquired_inside_ended_block")       # not covered by the statement; reported
                    bad = [b for b in others if b not in n.parents]
                    if bad:
                        viol.append((classify("C05.lock_acquired_beside_active_block", n),
                                     f"tick {tick}: block {_nm(n)} acquired the lock while "
                                     f"{[_nm(b) for b in bad]} (not its ancestors) are active"))
                if now_active and not was_active:
                    active_set[pid] = n
                elif was_active and not now_active:
                    del active_set[pid]
            elif isinstance(n, (p.EndBlockNode, p.EndBlocksNode)) and field == "completed" and new is True:
                before = active_before_pending if active_before_pending is not None else list(active_set.values())
                newly = list(pending_ended)
                pending_ended = []
                active_before_pending = None
                if ctx is not None:
                    res.count("end_block_by_interrupt")
                    by_interrupt += 1
                lagging = [b for b in nodes.values() if isinstance(b, p.BlockNode) and b not in newly
                           and S(id(b))["lock_acquired"] and S(id(b))["block_ended"]]
                if isinstance(n, p.EndBlockNode) and lagging:
                    # visit_EndBlockNode takes the new tag value from the *locked* blocks: a block that has ended
                    # but not yet released its lock can be named by the tag from here on
                    for b in lagging:
                        S(id(b)).setdefault("end_block_while_lagging", tick)
                if isinstance(n, p.EndBlockNode):
                    res.count("end_block_checks")
                    if not before:
                        res.count("end_block_without_active_block")
                    if _chain(before):
                        exp = [max(before, key=lambda b: len(b.parents))] if before else []
                        if {id(b) for b in exp} != {id(b) for b in newly}:
                            if not newly and exp and any(exp[0] in b.parents for b in lagging):
                                # a deeper block was ended one tick ago and still holds its lock flag: the
                                # implementation aims this End block at it once more. Two End blocks arriving
                                # within one tick from two paths - which block the second one means is not
                                # decided by the statement; counted, not judged
                                res.count("end_block_in_lag_window_not_judged")
                            else:
                                viol.append((classify("C05.end_block_wrong_target", n), f"tick {tick}: `End block` "
                                             f"{nid} ({'interrupt' if ctx is not None else 'main path'}) ended "
                                             f"{[_nm(b) for b in newly]}, innermost active block was "
                                             f"{[_nm(b) for b in exp]} (active before: {[_nm(b) for b in before]}; "
                                             f"ended but still locked: {[_nm(b) for b in lagging]})"))
                else:
                    res.count("end_blocks_checks")
                    if len(before) >= 2:
                        res.count("end_blocks_with_nested_active")
                    if active_set:
                        viol.append((classify("C05.end_blocks_leaves_active_block", n),
                                     f"tick {tick}: `End blocks` {nid} left {[_nm(b) for b in active_set.values()]} "
                                     f"active"))
            elif field == "unreg_call":
                if ctx != pid:
                    s["foreign_unreg_tick"] = tick          # unregistered by somebody else (abort at block end)
            elif field == "reg_call":
                if ctx == pid and s["foreign_unreg_tick"] == tick:
                    # the handler of an interrupt that was aborted earlier in this very tick is advanced once more
                    # (the interpreter iterates over a copy of its interrupt list) and registers its node again:
                    # a Watch through the "not registered yet" branch, an Alarm through its re-arm
                    if s["rereg_after_abort"] is None:
                        s["rereg_after_abort"] = tick
            elif field == "interrupt_registered" and new is False:
                explicit = prev is not None and prev[1] == "unreg_call" and prev[6] == pid
                if not explicit and (isinstance(n, p.AlarmNode) or not s["completed"]):
                    s["stale"] = True
            elif field == "started" and new is True and ctx != pid:
                par = n.parent
                # ---- later siblings of a Block start only after that block has ended
                if par is not None and not isinstance(n, p.WhitespaceNode):
                    sibs = par.children
                    i = sibs.index(n)
                    for sib in sibs[:i]:
                        if isinstance(sib, p.BlockNode):
                            res.count("sibling_after_block_checks")
                            ss = S(id(sib))
                            if not ss["block_ended"]:
                                viol.append((classify("C05.sibling_started_before_block_ended", n),
                                             f"tick {tick}: {nid} {cls} started while the preceding block "
                                             f"{_nm(sib)} has not ended (lock={ss['lock_acquired']}, "
                                             f"started={ss['started']})"))
                # ---- no line below a Watch/Alarm of an ended block
                seen_cond = None
                for a in n.parents:
                    if isinstance(a, p.NodeWithCondition):
                        seen_cond = seen_cond or a
                    elif isinstance(a, p.BlockNode) and seen_cond is not None and S(id(a))["block_ended"]:
                        after_block_end.append((idx, n, seen_cond, a, tick))
                        break
            if isinstance(n, p.CallMacroNode):
                if field == "started" and new is True:
                    mac_active[n.macro_name] = mac_active.get(n.macro_name, 0) + 1
                    mac_max[n.macro_name] = max(mac_max.get(n.macro_name, 0), mac_active[n.macro_name])
                elif field == "completed" and new is True:
                    mac_active[n.macro_name] = max(0, mac_active.get(n.macro_name, 0) - 1)
            prev = ev
        EXEC = ("completed", "failed", "child_index", "children_complete", "lock_acquired", "interrupt_registered",
                "activated", "block_ended")
        for idx, n, w, b, tick in after_block_end:
            if any(e[6] == id(n) and e[1] in EXEC and e[0] <= err_tick for e in trace[idx:]):
                viol.append((classify("C05.interrupt_body_runs_after_block_end", n),
                             f"tick {tick}: {n.id} {type(n).__name__} below {type(w).__name__} {w.id} started and "
                             f"executed after its block {_nm(b)} had ended"))
            else:
                res.count("start_flag_only_after_block_end")

        # ---------------- tick-end invariant (first occurrence of each kind per case)
        reported = set()
        for sn in snaps:
            k = sn["tick"]
            active, lag, tag = sn["active"], sn["lag"], sn["tag"]
            res.count("tick_end_checks")
            if active:
                res.count("ticks_with_active_block")
                if len(active) > 1:
                    res.count("ticks_with_nested_active_blocks")
            if not _chain(active):
                if "chain" not in reported:
                    reported.add("chain")
                    viol.append((classify("C05.active_blocks_not_a_chain", active[0]), f"tick {k}: active blocks "
                                 f"{[_nm(b) for b in active]} are not nested in each other"))
                continue
            inner = max(active, key=lambda n: len(n.parents)) if active else None
            allowed = {inner.name} if inner is not None else {None, ""}
            if lag:
                res.count("tick_ends_in_lag_window")      # an ended block still holds its lock flag (one tick)
            if tag not in allowed:
                kind = "tag" if inner is not None else "tag0"
                if kind in reported:
                    continue
                reported.add(kind)
                if inner is not None:
                    named = [b for b in sn["blocks"] if b.name == tag]
                    mech = "C05.block_tag_wrong"
                    if any(S(id(b)).get("end_block_while_lagging", 10 ** 9) <= k for b in named):
                        mech = "C05.end_block_retags_ended_block"
                    for b in named + [inner]:
                        mech = classify(mech, b)
                    viol.append((mech, f"tick {k}: Block tag = {tag!r}, innermost active block is {inner.name!r} "
                                 f"(active {[_nm(b) for b in active]}, ended but still locked {[_nm(b) for b in lag]})"))
                else:
                    named = [b for b in sn["blocks"] if b.name == tag]
                    if sn["stale_tag"] is not None and tag == sn["stale_tag"]:
                        mech = "C05.block_tag_survives_restart"
                        extra = f"; the previous run ended while the tag was {tag!r} and nothing has set it since"
                    elif any(S(id(b))["reset_while_active"] is not None and S(id(b))["reset_while_active"] <= k
                             for b in named):
                        mech = "C05.interrupt_survives_reset_of_enclosing_scope"
                        extra = ("; that block was active in an interrupt when the re-arm of its enclosing Alarm / a "
                                 "new macro invocation reset its lock flag")
                    elif any(S(id(b)).get("end_block_while_lagging", 10 ** 9) <= k for b in named):
                        mech = "C05.end_block_retags_ended_block"
                        extra = ("; that block had already ended (lock flag not yet released) when a further `End "
                                 "block` took the new tag value from the locked blocks")
                    elif any(b.block_ended or S(id(b))["block_ended"] for b in named):
                        mech = "C05.block_tag_names_ended_block"
                        extra = "; that block has ended"
                    else:
                        mech = "C05.block_tag_wrong"
                        extra = ""
                    viol.append((mech, f"tick {k} (System State {sn['state']}): Block tag = {tag!r} but no block is "
                                 f"active{extra}"))
            for w, b in sn["reg_in_ended"]:
                if ("reg", id(w)) in reported:
                    continue
                reported.add(("reg", id(w)))
                ws = S(id(w))
                if ws.get("pending_at_block_end", 10 ** 9) > k:
                    # its line had started before the block ended and it registered afterwards: it was not pending
                    # when the block ended - the statement does not say what becomes of it; counted, not judged
                    res.count("registered_after_block_end_not_pending")
                    continue
                if ws["rereg_after_abort"] is not None and ws["rereg_after_abort"] <= k:
                    mech = "C05.aborted_interrupt_registers_itself_again"
                else:
                    mech = classify("C05.interrupt_still_registered_after_block_end", w)
                viol.append((mech, f"tick {k}: {type(w).__name__} {w.id} inside ended block {_nm(b)} is (still or "
                             f"again) registered"))
        nontrivial = acquired >= 2 or by_interrupt > 0 or blockend_pending > 0
        res.case([shape_hash(text), case.get("variant")] if nontrivial else None,
                 sample={"method": text, "variant": case.get("variant"), "ctl": case.get("ctl"), "ticks": rig.k,
                         "locks": acquired, "end_blocks_by_interrupt": by_interrupt, "marks": rig.marks()[:10]})
    finally:
        rig.close()
    seen_v = set()
    for mech, msg in viol:
        if (mech, msg) in seen_v:
            continue
        seen_v.add((mech, msg))
        res.violation(mech, msg, case)


def plan(tier, seed):
    n = 2400 if tier == "quick" else 48000
    shards = 16 if tier == "quick" else 64
    per = n // shards
    return [{"seed": seed * 1000003 + i, "n": per, "max_depth": 4} for i in range(shards)]


def run_shard(spec):
    res = Result()
    rnd = random.Random(spec["seed"])
    for _ in range(spec["n"]):
        case = gen_case(rnd, spec.get("max_depth", 4))
        check_case(case, res)
    return res


def replay(case):
    res = Result()
    check_case(case, res)
    return res
