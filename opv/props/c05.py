"""C05 - Blocks nest and end correctly; Block tag names the active block.

Quiescent-point invariant (every tick end) over the real program tree + Block tag, and event rules over the
lock_acquired / block_ended / started / completed / interrupt_registered transitions recorded by the engine-rig
descriptors (see DESIGN.md C05). "Active" is lock_acquired and not block_ended.
"""
from __future__ import annotations

import random

from opv.core import Result
from opv.gen_pcode import Gen, trajectory, shape_hash
from opv.rigs.interrupt_hooks import install, QUIET

ID = "C05"
LEVEL = "exploration"
TECHNIQUE = ("runtime monitoring: tick-end invariant on the set of active blocks and the Block tag plus event rules on "
             "block lock/end transitions of generated runs")
RULE = ("seeded P-code generator (nested and sequential Block to depth 4, End block / End blocks in block bodies, in "
        "Watch/Alarm bodies and at arbitrary places, Watch/Alarm inside and outside blocks, blocks started from "
        "interrupt bodies, Wait, thresholds, UOD commands, macros in a minority) x scripted FT01 trajectory; about one "
        "case in six also has a Restart / Stop (+Start) issued by the user or by the method. 15 % of the cases are of "
        "the macro class: Blocks on the main path and / or started from a Watch/Alarm body call a macro of 3-7 lines "
        "with Waits, and End block(s) is executed by another Watch/Alarm (root level, outer block, or pending inside "
        "the block) or by the main path at a tick placed by a dry run inside / around the time the call is in "
        "progress. distinct = shape hash of the method text x run-control variant; non-trivial = at least two blocks "
        "acquired the lock, or an End block(s) was executed by an interrupt, or a block ended with a registered "
        "Watch/Alarm inside, or a block ended while a macro call inside it had lines left")
ASSUMPTIONS = [
    "a block is active when lock_acquired and not block_ended (the lock flag is dropped one tick after End block)",
    "'innermost' / 'End block ends exactly the innermost active block' are read dynamically: whichever path (main "
    "or interrupt) executes End block, the innermost active block at that instant is the one that must end. "
    "Exception, counted and not judged: an End block that ends nothing while a deeper block has ended but still "
    "holds its lock flag (a second End block arriving within the one-tick lag of the first)",
    "'instructions after a block' = later siblings of the Block line in the same scope; they may start only while "
    "that block's block_ended flag is set",
    "'together with its pending Watches and Alarms' = a Watch/Alarm inside the block that was registered when the "
    "block ended is not registered at any later tick end, and no line below a Watch/Alarm of an ended block is "
    "executed (a bare started flag without execution is counted, not judged). A Watch/Alarm whose line had started "
    "before the end and which registers afterwards was not pending: counted, not judged",
    "'ends the block' also covers what executes dynamically inside it: a line of a macro body (executed inline by "
    "the caller, i.e. not below a Watch/Alarm of the macro body) must not start in a tick after the tick in which "
    "every call of that macro that is in progress (CallMacroNode started, not completed, not reset) came to lie "
    "lexically inside an ended block. Not judged, counted: starts in the End-block tick itself; a start while some "
    "other call in progress lies outside every ended block (shared macro body); the first late line of a call if it "
    "has a threshold (its visit - run-log state 'awaiting threshold' - had begun before the block ended, and whether "
    "an instruction in progress at the end may still complete is not decided by the statement); a bare started flag "
    "without execution; calls made from inside another macro body (only lexical Block ancestors of the call count)",
    "the Block tag is compared at tick ends only; None and '' both mean empty; it is also compared while the system "
    "is Stopped / Restarting (no block is active then)",
    "a block that acquires the lock although an enclosing block has already ended (its line had started before) is "
    "not covered by the statement: counted (lock_acquired_inside_ended_block), not judged",
    "observation through data descriptors / method wrappers installed from the harness (opv/rigs/interrupt_hooks.py)",
]
REQUIRED = {"tick_end_checks": 40000, "ticks_with_active_block": 12000, "ticks_with_nested_active_blocks": 5000,
            "lock_acquisitions": 2000, "nested_lock_acquisitions": 1000, "end_block_checks": 1000,
            "end_block_by_interrupt": 600, "end_blocks_checks": 400, "sibling_after_block_checks": 1500,
            "block_end_with_registered_interrupt": 400, "run_boundaries": 100,
            "run_boundaries_with_active_block": 20,
            "macro_line_start_checks": 500, "macro_calls_inside_block_from_interrupt": 100,
            "block_ended_during_macro_call": 120, "block_ended_during_macro_call_block_from_interrupt": 70,
            "block_ended_during_macro_call_by_interrupt": 100, "block_ended_during_macro_call_by_main_path": 25,
            "block_ended_during_macro_call_with_lines_left": 100}


class Gen5(Gen):
    """Gen + many more blocks + End block / End blocks as ordinary statements anywhere."""

    def __init__(self, *a, run_control=None, **kw):
        super().__init__(*a, **kw)
        self.run_control = run_control

    def stmt(self, ind, depth, in_block, no_blank=False):
        r = self.r
        x = r.random()
        if depth < self.max_depth and x < 0.2:
            self.kinds.append("block")
            self.emit(ind, f"Block: b{self.lab()}")
            self.body(ind + 4, depth + 1, True, 4)
            y = r.random()
            if y < 0.75:
                self.emit(ind + 4, r.choice(["End block", "End block", "End block", "End blocks"]))
            elif y < 0.9:
                self.emit(ind + 4, f"Watch: {self.watch_cond()}")
                self.emit(ind + 8, r.choice(["End block", "End blocks"]))
            # else: no End block of its own - ended from elsewhere or never
            return
        if x < 0.2 + (0.09 if in_block else 0.03):
            self.kinds.append("endblock")
            self.emit(ind, r.choice(["End block", "End block", "End blocks"]))
            return
        if self.run_control and depth <= 1 and x > 0.985:
            self.kinds.append("runctl")
            self.emit(ind, self.run_control)
            return
        return super().stmt(ind, depth, in_block, no_blank)


MACRO_SHARE = 0.15      # share of cases of the macro-call-in-block class (gen_macro_case)


def _macro_body(rnd, lab, ind, k):
    """k lines of a macro body; at least one Wait so that a call spans several ticks."""
    out = []
    kinds = [rnd.choice(["mark", "mark", "mark", "wait", "wait", "uod", "thr"]) for _ in range(k)]
    if "wait" not in kinds:
        kinds[rnd.randrange(k - 1) if k > 1 else 0] = "wait"
    for c in kinds:
        if c == "mark":
            out.append(" " * ind + f"Mark: {lab()}")
        elif c == "wait":
            out.append(" " * ind + f"Wait: {rnd.choice(['0.2', '0.3', '0.5', '0.8'])}s")
        elif c == "uod":
            out.append(" " * ind + rnd.choice(["Short", "Long", "Set1: 3"]))
        else:
            out.append(" " * ind + f"{rnd.choice(['0.2', '0.5', '0'])} Mark: {lab()}")
    return out


def _call_windows(text, ticks=90):
    """Dry run with FT01 = 0: (start tick, completion tick or None) of every macro call."""
    from opv.rigs import engine_rig as R
    install()
    rig = R.EngineRig(text)
    try:
        rig.start()
        while rig.k < ticks and not rig.errors:
            rig.hw.inputs["FT01"] = 0.0
            rig.tick()
        win: dict[int, list] = {}
        for ev in R.TRACE:
            if ev[3] == "CallMacroNode" and ev[5] is True:
                if ev[1] == "started":
                    win.setdefault(ev[6], [ev[0], None])
                elif ev[1] == "completed" and ev[6] in win:
                    win[ev[6]][1] = ev[0]
        return [tuple(w) for w in win.values()]
    finally:
        rig.close()


def gen_macro_case(rnd: random.Random):
    """Macro class: Blocks - started on the main path and / or from a Watch/Alarm body - that call a multi-line
    macro containing Waits, and `End block` / `End blocks` executed by another Watch/Alarm (root level, in an outer
    block, or pending inside the block itself) or by the main path at a tick placed inside (or right around) the
    time the call is in progress."""
    L = ["Base: s"]
    n = [0]

    def lab():
        n[0] += 1
        return f"m{n[0]}"
    nmac = 2 if rnd.random() < 0.35 else 1
    for i in range(nmac):
        L.append(f"Macro: M{i}")
        L += _macro_body(rnd, lab, 4, rnd.randint(3, 7))
    for _ in range(rnd.randint(0, 2)):
        L.append(f"Mark: {lab()}")
    ind = 0
    outer = rnd.random() < 0.3
    if outer:
        L.append(f"Block: A{lab()}")
        ind = 4
        if rnd.random() < 0.5:
            L.append(" " * ind + f"Mark: {lab()}")
    true_cond = lambda: rnd.choice(["X = 0", "Run Counter >= 0", "FT01 < 7 L/h"])       # noqa: E731
    end_cond = "FT01 > 3 L/h"

    def ender(at, kind=None):
        kind = kind or rnd.choice(["Watch", "Watch", "Watch", "Alarm"])
        out = [" " * at + f"{kind}: {end_cond}"]
        if rnd.random() < 0.25:
            out.append(" " * (at + 4) + f"Mark: {lab()}")
        out.append(" " * (at + 4) + rnd.choice(["End block", "End block", "End block", "End blocks"]))
        if rnd.random() < 0.3:
            out.append(" " * (at + 4) + f"Mark: {lab()}")
        return out

    def block_with_call(at, name, own_end, mi):
        out = [" " * at + f"Block: {name}"]
        if rnd.random() < 0.5:
            out.append(" " * (at + 4) + f"Mark: {lab()}")
        if rnd.random() < 0.2:
            out += ender(at + 4)                        # a pending Watch/Alarm of the block itself ends it
        out.append(" " * (at + 4) + f"Call macro: M{mi}")
        if rnd.random() < 0.6:
            out.append(" " * (at + 4) + f"Mark: {lab()}")
        if rnd.random() < 0.2:
            out.append(" " * (at + 4) + f"Call macro: M{mi}")
        if own_end:
            out.append(" " * (at + 4) + "End block")
        return out

    starter = rnd.choice(["interrupt", "interrupt", "interrupt", "main", "main", "both"])
    if starter == "both" and nmac == 1 and rnd.random() < 0.8:
        starter = rnd.choice(["interrupt", "main"])
    # a Watch/Alarm that is to end a block of the main path has to be registered before the main path enters it
    enders_before = starter != "interrupt" or rnd.random() < 0.5
    if enders_before:
        L += ender(ind)
    main_ends = False
    mi = rnd.randrange(nmac)
    if starter in ("interrupt", "both"):
        k = rnd.choice(["Watch", "Watch", "Alarm"])
        L.append(" " * ind + f"{k}: {true_cond()}")
        L += block_with_call(ind + 4, f"W{lab()}", rnd.random() < 0.7, mi)
        mi = (mi + 1) % nmac            # "both": the two blocks call different macros when there are two
        if rnd.random() < 0.6:
            L.append(" " * (ind + 4) + f"Mark: {lab()}")
        if k == "Alarm":
            L.append(" " * (ind + 4) + "Wait: 3s")          # keeps the re-arm of the starter out of the way
    if starter in ("main", "both"):
        if rnd.random() < 0.4:
            L.append(" " * ind + f"Wait: {rnd.choice(['0.2', '0.5', '1'])}s")
        L += block_with_call(ind, f"B{lab()}", rnd.random() < 0.8, mi)
        if rnd.random() < 0.6:
            L.append(" " * ind + f"Mark: {lab()}")
    elif rnd.random() < 0.5:
        # the main path ends the block that was started from the Watch/Alarm body
        main_ends = True
        L.append(" " * ind + f"Wait: {rnd.choice(['0.3', '0.5', '0.8', '1', '1.5', '2'])}s")
        L.append(" " * ind + rnd.choice(["End block", "End block", "End blocks"]))
        L.append(" " * ind + f"Mark: {lab()}")
    if not enders_before and (not main_ends or rnd.random() < 0.5):
        L += ender(ind)
    elif rnd.random() < 0.2:
        L += ender(ind)
    if outer:
        L.append(" " * ind + f"Wait: {rnd.choice(['1', '2', '4'])}s")
        if rnd.random() < 0.8:
            L.append(" " * ind + "End block")
        ind = 0
    for _ in range(rnd.randint(0, 2)):
        L.append(rnd.choice([f"Mark: {lab()}", "Wait: 0.5s", "Short"]))
    text = "\n".join(L) + "\n"
    wins = _call_windows(text)
    if wins and rnd.random() < 0.85:
        a, b = rnd.choice(wins)
        b = b if b is not None else a + 20
        t_end = max(3, rnd.randint(a - 1, b + 1))
    else:
        t_end = rnd.randint(4, 45)
    w = rnd.choice([1, 2, 3, 200, 200, 200])
    # the Watch/Alarm that ends the block sees its condition one tick after the reading changes and runs its
    # body a tick later: aim the reading two ticks ahead
    at = max(0, t_end - 2 - 2)
    traj = [6.0 if at <= i < at + w else 0.0 for i in range(200)]
    return {"text": text, "traj": traj, "ctl": [], "variant": "macro_call_in_block"}


def gen_case(rnd: random.Random, max_depth: int = 4):
    if rnd.random() < MACRO_SHARE:
        return gen_macro_case(rnd)
    allow = ["mark", "mark", "uod", "wait", "block", "watch", "alarm", "thr", "blank"]
    if rnd.random() < 0.15:
        allow.append("macro")
    variant = "none"
    v = rnd.random()
    if v < 0.05:
        variant = "method_restart"
    elif v < 0.08:
        variant = "method_stop"
    elif v < 0.14:
        variant = "user_restart"
    elif v < 0.18:
        variant = "user_stop_start"
    g = Gen5(rnd, allow=tuple(allow), max_depth=max_depth,
             run_control={"method_restart": "Restart", "method_stop": "Stop"}.get(variant),
             watch_conds=("FT01 > 3 L/h", "FT01 > 1 L/h", "X = 0", "Run Counter >= 0", "Block Time > 0.3 s",
                          "FT01 < 3 L/h", "FT01 >= 5 L/h", "Block Time > 1 s"),
             alarm_conds=("FT01 > 3 L/h", "FT01 >= 5 L/h", "X = 1", "FT01 < 1 L/h", "Block Time > 0.5 s"),
             thr_values=("0.2", "0.5", "1", "0", "0.3"), wait_values=("0.1", "0.3", "0.5", "0.8", "0"),
             uod_cmds=("Short", "Long", "Short", "Set1: 3"))
    text = g.program(rnd.randint(3, 8))
    if variant.startswith("method") and "runctl" not in g.kinds:
        text += {"method_restart": "Restart", "method_stop": "Stop"}[variant] + "\n"
    traj = trajectory(rnd, 200)
    ctl = []
    if variant == "user_restart":
        ctl.append({"tick": rnd.randint(4, 60), "cmd": "Restart"})
    elif variant == "user_stop_start":
        t = rnd.randint(4, 60)
        ctl.append({"tick": t, "cmd": "Stop"})
        ctl.append({"tick": t + rnd.randint(2, 8), "cmd": "Start"})
    elif variant == "method_stop":
        ctl.append({"tick": rnd.randint(30, 90), "cmd": "Start"})     # start again if the method stopped the run
    return {"text": text, "traj": traj, "ctl": ctl, "variant": variant}


def _chain(blocks):
    return all((a in b.parents) or (b in a.parents) for i, a in enumerate(blocks) for b in blocks[i + 1:])


def _nm(b):
    return f"{b.id}:{b.name}"


def check_case(case, res: Result):
    from opv.rigs import engine_rig as R
    import openpectus.lang.model.ast as p

    install()
    text = case["text"]
    rig = R.EngineRig(text)
    viol: list[tuple] = []
    keep_alive = []        # every program object seen (Restart/Stop re-parse): keeps id() values unique
    try:
        ctl = {}
        for c in case.get("ctl", ()):
            ctl.setdefault(c["tick"], []).append(c["cmd"])
        rig.start()
        prog = rig.program()
        keep_alive.append(prog)
        blocks_of = {id(prog): [n for n in prog.get_all_nodes() if isinstance(n, p.BlockNode)]}
        conds_in = {}
        last_ev = rig.k
        seen = len(R.TRACE)
        stale_tag = None          # Block tag value left over by the end of the previous run
        prev_tag = None           # Block tag at the end of the previous tick
        boundaries = 0
        max_ticks = 170
        min_ticks = max([c["tick"] for c in case.get("ctl", ())] + [0]) + 25
        snaps = []                # tick-end snapshots, judged after the event walk (classification needs the events)
        while rig.k < max_ticks:
            T = rig.k + 1
            for cmd in ctl.get(T, ()):
                rig.user(cmd)
                last_ev = rig.k
            rig.hw.inputs["FT01"] = case["traj"][min(T - 2, len(case["traj"]) - 1)]
            rig.tick()
            tr = R.TRACE
            if any(tr[i][1] not in QUIET for i in range(seen, len(tr))) or (rig.cmdlog and rig.cmdlog[-1][0] == rig.k):
                last_ev = rig.k
            seen = len(tr)
            if rig.errors:
                break
            # ---------------- tick-end snapshot
            prog = rig.program()
            boundary = False
            if id(prog) not in blocks_of:
                keep_alive.append(prog)
                blocks_of[id(prog)] = [n for n in prog.get_all_nodes() if isinstance(n, p.BlockNode)]
                boundaries += 1
                res.count("run_boundaries")
                boundary = True
            blocks = blocks_of[id(prog)]
            active = [b for b in blocks if b.lock_acquired and not b.block_ended]
            lag = [b for b in blocks if b.lock_acquired and b.block_ended]      # ended, lock not yet released
            tag = rig.tag("Block")
            if boundary:
                # the run ended in this tick (Stop / Restart re-parse the method): a non-empty tag is a leftover now
                stale_tag = tag if tag not in (None, "") else None
                if prev_tag not in (None, ""):
                    # a block was active (named by the tag) at the end of the tick before the run ended
                    res.count("run_boundaries_with_active_block")
            elif stale_tag is not None and tag != stale_tag:
                stale_tag = None
            prev_tag = tag
            reg_in_ended = []
            for b in blocks:
                if b.block_ended:
                    cs = conds_in.get(id(b))
                    if cs is None:
                        cs = conds_in[id(b)] = [d for d in b.get_child_nodes(recursive=True)
                                                if isinstance(d, p.NodeWithCondition)]
                    reg_in_ended += [(w, b) for w in cs if w.interrupt_registered]
            snaps.append({"tick": rig.k, "active": active, "lag": lag, "tag": tag, "state": rig.state,
                          "stale_tag": stale_tag if boundaries else None, "reg_in_ended": reg_in_ended,
                          "blocks": blocks})
            if rig.k >= min_ticks and rig.k - last_ev >= 20:
                break

        # ---------------- event rules
        trace = list(R.TRACE)
        errored = bool(rig.errors)
        err_tick = rig.errors[0][0] if errored else 10 ** 9
        if errored:
            res.count("runs_ending_in_error")
        nodes = {}
        for pr in keep_alive:
            for n in pr.get_all_nodes():
                nodes[id(n)] = n
        st: dict[int, dict] = {}

        def S(pid):
            s = st.get(pid)
            if s is None:
                s = st[pid] = {"lock_acquired": False, "block_ended": False, "completed": False, "started": False,
                               "interrupt_registered": False, "stale": False, "reset_while_active": None,
                               "rereg_after_abort": None, "foreign_unreg_tick": None}
            return s
        active_set: dict[int, object] = {}     # pyid -> block node, in event order
        pending_ended = []                      # block_ended events of the End block(s) visit in progress
        active_before_pending = None
        ctx = None
        prev = None
        acquired = 0
        by_interrupt = 0
        after_block_end = []
        mac_active: dict[str, int] = {}
        mac_max: dict[str, int] = {}
        blockend_pending = 0
        blockend_macro = 0
        calls_open: dict[tuple, dict] = {}     # (pyid of program, macro name) -> {pyid: CallMacroNode started, not completed}
        macro_of: dict[int, object] = {}       # pyid of a line -> MacroNode whose body executes it inline, or None
        macro_after_end = []                   # starts of macro-body lines judged after the walk
        late_seen = set()                      # (program, macro, end tick) that had a line start after the block end
        call_reset_while_running: dict[tuple, int] = {}    # (program, macro name) -> first tick (see below)

        def top_of(x):
            ps = x.parents
            return id(ps[-1]) if ps else id(x)

        def inline_macro(x):
            """The MacroNode in whose body x is executed by the caller's own path (no Watch/Alarm in between: their
            bodies run in handlers of their own, possibly after the call has completed)."""
            if id(x) not in macro_of:
                m = None
                for a in x.parents:
                    if isinstance(a, p.NodeWithCondition):
                        break
                    if isinstance(a, p.MacroNode):
                        m = a
                        break
                macro_of[id(x)] = m
            return macro_of[id(x)]

        def classify(mech, n):
            """Re-classification of violations that are instances of the interpreter defects already recorded for C02
            (narrow: the offending node must lie in a scope that demonstrably went through that mechanism)."""
            chain = [n] + list(n.parents)
            mac = next((a for a in chain if isinstance(a, p.MacroNode)), None)
            if mac is not None and mac_max.get(mac.macro_name, 0) >= 2:
                return "C05.concurrent_calls_share_macro_body"
            for x in chain:
                if isinstance(x, p.NodeWithCondition) and S(id(x))["stale"] and any(
                        isinstance(a, (p.AlarmNode, p.MacroNode)) for a in x.parents):
                    return "C05.interrupt_survives_reset_of_enclosing_scope"
                if isinstance(x, p.BlockNode) and S(id(x))["reset_while_active"] is not None:
                    return "C05.interrupt_survives_reset_of_enclosing_scope"
            return mech

        for idx, ev in enumerate(trace):
            tick, field, nid, cls, old, new, pid = ev
            if tick > err_tick:
                break
            if field == "h_enter":
                ctx = pid
                continue
            if field == "h_exit":
                ctx = None
                continue
            n = nodes.get(pid)
            if n is None:
                prev = ev
                continue
            s = S(pid)
            if field in ("lock_acquired", "block_ended", "completed", "started", "interrupt_registered"):
                s[field] = new
            if field not in ("block_ended", "children_complete", "interrupt_registered", "unreg_call", "completed"):
                pending_ended = []
                active_before_pending = None
            if isinstance(n, p.BlockNode) and field in ("lock_acquired", "block_ended"):
                was_active = pid in active_set
                now_active = s["lock_acquired"] and not s["block_ended"]
                if field == "block_ended" and new is True:
                    if active_before_pending is None:
                        active_before_pending = list(active_set.values())
                    pending_ended.append(n)
                    inside = [d for d in n.get_child_nodes(recursive=True) if isinstance(d, p.NodeWithCondition)
                              and S(id(d))["interrupt_registered"]]
                    if inside:
                        res.count("block_end_with_registered_interrupt")
                        blockend_pending += 1
                        for d in inside:
                            S(id(d)).setdefault("pending_at_block_end", tick)
                    s["end_tick"] = tick
                    for (_t, mname), cs in calls_open.items():
                        for c in cs.values():
                            if n not in c.parents:
                                continue
                            res.count("block_ended_during_macro_call")
                            res.count("block_ended_during_macro_call_by_" + ("interrupt" if ctx is not None else
                                                                              "main_path"))
                            if any(isinstance(a, p.NodeWithCondition) for a in n.parents):
                                res.count("block_ended_during_macro_call_block_from_interrupt")
                            m = c.root.macros.get(mname) if isinstance(c.parents[-1], p.ProgramNode) else None
                            if m is not None:
                                left = [d for d in m.children if not isinstance(d, p.WhitespaceNode)
                                        and not S(id(d))["started"]]
                                if left:
                                    res.count("block_ended_during_macro_call_with_lines_left")
                                    blockend_macro += 1
                if field == "block_ended" and new is False:
                    s["end_tick"] = None
                if field == "lock_acquired" and new is False and not s["block_ended"]:
                    # the lock flag of a block that has not ended is cleared: reset_runtime_state of an enclosing
                    # Alarm / macro scope while an interrupt is still executing this block
                    if s["reset_while_active"] is None:
                        s["reset_while_active"] = tick          # first time; sticky
                    res.count("active_block_reset_by_enclosing_scope")
                if field == "lock_acquired" and new is True:
                    res.count("lock_acquisitions")
                    acquired += 1
                    others = [b for b in active_set.values() if b is not n]
                    if others:
                        res.count("nested_lock_acquisitions")
                    if ctx is not None:
                        res.count("lock_acquired_in_interrupt")
                    if any(isinstance(a, p.BlockNode) and S(id(a))["block_ended"] for a in n.parents):
                        res.count("lock_acquired_inside_ended_block")       # not covered by the statement; reported
                    bad = [b for b in others if b not in n.parents]
                    if bad:
                        viol.append((classify("C05.lock_acquired_beside_active_block", n),
                                     f"tick {tick}: block {_nm(n)} acquired the lock while "
                                     f"{[_nm(b) for b in bad]} (not its ancestors) are active"))
                if now_active and not was_active:
                    active_set[pid] = n
                elif was_active and not now_active:
                    del active_set[pid]
            elif isinstance(n, (p.EndBlockNode, p.EndBlocksNode)) and field == "completed" and new is True:
                before = active_before_pending if active_before_pending is not None else list(active_set.values())
                newly = list(pending_ended)
                pending_ended = []
                active_before_pending = None
                if ctx is not None:
                    res.count("end_block_by_interrupt")
                    by_interrupt += 1
                lagging = [b for b in nodes.values() if isinstance(b, p.BlockNode) and b not in newly
                           and S(id(b))["lock_acquired"] and S(id(b))["block_ended"]]
                if isinstance(n, p.EndBlockNode) and lagging:
                    # visit_EndBlockNode takes the new tag value from the *locked* blocks: a block that has ended
                    # but not yet released its lock can be named by the tag from here on
                    for b in lagging:
                        S(id(b)).setdefault("end_block_while_lagging", tick)
                if isinstance(n, p.EndBlockNode):
                    res.count("end_block_checks")
                    if not before:
                        res.count("end_block_without_active_block")
                    if _chain(before):
                        exp = [max(before, key=lambda b: len(b.parents))] if before else []
                        if {id(b) for b in exp} != {id(b) for b in newly}:
                            if not newly and exp and any(exp[0] in b.parents for b in lagging):
                                # a deeper block was ended one tick ago and still holds its lock flag: the
                                # implementation aims this End block at it once more. Two End blocks arriving
                                # within one tick from two paths - which block the second one means is not
                                # decided by the statement; counted, not judged
                                res.count("end_block_in_lag_window_not_judged")
                            else:
                                viol.append((classify("C05.end_block_wrong_target", n), f"tick {tick}: `End block` "
                                             f"{nid} ({'interrupt' if ctx is not None else 'main path'}) ended "
                                             f"{[_nm(b) for b in newly]}, innermost active block was "
                                             f"{[_nm(b) for b in exp]} (active before: {[_nm(b) for b in before]}; "
                                             f"ended but still locked: {[_nm(b) for b in lagging]})"))
                else:
                    res.count("end_blocks_checks")
                    if len(before) >= 2:
                        res.count("end_blocks_with_nested_active")
                    if active_set:
                        viol.append((classify("C05.end_blocks_leaves_active_block", n),
                                     f"tick {tick}: `End blocks` {nid} left {[_nm(b) for b in active_set.values()]} "
                                     f"active"))
            elif field == "unreg_call":
                if ctx != pid:
                    s["foreign_unreg_tick"] = tick          # unregistered by somebody else (abort at block end)
            elif field == "reg_call":
                if ctx == pid and s["foreign_unreg_tick"] == tick:
                    # the handler of an interrupt that was aborted earlier in this very tick is advanced once more
                    # (the interpreter iterates over a copy of its interrupt list) and registers its node again:
                    # a Watch through the "not registered yet" branch, an Alarm through its re-arm
                    if s["rereg_after_abort"] is None:
                        s["rereg_after_abort"] = tick
            elif field == "interrupt_registered" and new is False:
                explicit = prev is not None and prev[1] == "unreg_call" and prev[6] == pid
                if not explicit and (isinstance(n, p.AlarmNode) or not s["completed"]):
                    s["stale"] = True
            elif field == "started" and new is True and ctx != pid:
                par = n.parent
                # ---- later siblings of a Block start only after that block has ended
                if par is not None and not isinstance(n, p.WhitespaceNode):
                    sibs = par.children
                    i = sibs.index(n)
                    for sib in sibs[:i]:
                        if isinstance(sib, p.BlockNode):
                            res.count("sibling_after_block_checks")
                            ss = S(id(sib))
                            if not ss["block_ended"]:
                                viol.append((classify("C05.sibling_started_before_block_ended", n),
                                             f"tick {tick}: {nid} {cls} started while the preceding block "
                                             f"{_nm(sib)} has not ended (lock={ss['lock_acquired']}, "
                                             f"started={ss['started']})"))
                # ---- no line below a Watch/Alarm of an ended block
                seen_cond = None
                for a in n.parents:
                    if isinstance(a, p.NodeWithCondition):
                        seen_cond = seen_cond or a
                    elif isinstance(a, p.BlockNode) and seen_cond is not None and S(id(a))["block_ended"]:
                        after_block_end.append((idx, n, seen_cond, a, tick))
                        break
            if field == "started" and new is True and ctx != pid and not isinstance(n, p.WhitespaceNode):
                # ---- nothing that executes dynamically inside an ended block starts any more: a line of a macro
                # body all of whose calls in progress lie (lexically) inside a block that ended in an earlier tick
                # (a Watch/Alarm line of the macro body that is started again by its own handler is not such a start)
                m = inline_macro(n)
                if m is not None:
                    cs = calls_open.get((top_of(n), m.macro_name))
                    if not cs:
                        res.count("macro_line_start_without_call_in_progress")
                    else:
                        res.count("macro_line_start_checks")
                        ends = []
                        for c in cs.values():
                            ts = [S(id(b)).get("end_tick") for b in c.parents if isinstance(b, p.BlockNode)
                                  and S(id(b))["block_ended"]]
                            ts = [t for t in ts if t is not None]
                            ends.append((c, min(ts) if ts else None))
                        if any(isinstance(b, p.BlockNode) for c in cs.values() for b in c.parents):
                            res.count("macro_line_start_checks_call_inside_block")
                        if all(t is not None for _, t in ends):
                            k_late = (top_of(n), m.macro_name, max(t for _, t in ends))
                            first_late = k_late not in late_seen
                            late_seen.add(k_late)
                            if not all(t < tick for _, t in ends):
                                res.count("macro_line_started_in_block_end_tick_not_judged")
                            elif first_late and n.threshold is not None:
                                # the visit of a line with a threshold begins (run-log state "awaiting threshold")
                                # before the line is started; if the block ends while it waits, the interpreter lets
                                # that one line run when its threshold has passed. Whether a line whose visit was in
                                # progress when the block ended may still complete is not decided by the statement:
                                # the first late line of a call is counted, not judged, if it has a threshold
                                res.count("macro_line_with_threshold_first_after_block_end_not_judged")
                            else:
                                macro_after_end.append((idx, n, m, ends, tick))
                        elif any(t is not None for _, t in ends):
                            res.count("macro_line_start_other_call_outside_ended_block_not_judged")
            if isinstance(n, p.CallMacroNode):
                k_open = (top_of(n), n.macro_name)
                if field in ("started", "restarted") and new is True:
                    calls_open.setdefault(k_open, {})[pid] = n
                    if field == "started":
                        res.count("macro_calls")
                        if any(isinstance(b, p.BlockNode) for b in n.parents):
                            res.count("macro_calls_inside_block")
                            if any(isinstance(a, p.NodeWithCondition) for b in n.parents if isinstance(b, p.BlockNode)
                                   for a in b.parents):
                                res.count("macro_calls_inside_block_from_interrupt")
                elif (field == "completed" and new is True) or (field == "started" and new is False):
                    was_open = calls_open.get(k_open, {}).pop(pid, None)
                    if was_open is not None and field == "started" and not any(
                            isinstance(b, p.BlockNode) and S(id(b))["block_ended"] for b in n.parents):
                        # a call in progress that was not cut short by a block end is reset (re-arm of an enclosing
                        # Alarm / re-invocation of an enclosing macro): a surviving handler may still be executing it
                        call_reset_while_running.setdefault(k_open, tick)
                        res.count("macro_call_reset_while_in_progress")
                if field == "started" and new is True:
                    mac_active[n.macro_name] = mac_active.get(n.macro_name, 0) + 1
                    mac_max[n.macro_name] = max(mac_max.get(n.macro_name, 0), mac_active[n.macro_name])
                elif field == "completed" and new is True:
                    mac_active[n.macro_name] = max(0, mac_active.get(n.macro_name, 0) - 1)
            prev = ev
        EXEC = ("completed", "failed", "child_index", "children_complete", "lock_acquired", "interrupt_registered",
                "activated", "block_ended")
        for idx, n, w, b, tick in after_block_end:
            if any(e[6] == id(n) and e[1] in EXEC and e[0] <= err_tick for e in trace[idx:]):
                viol.append((classify("C05.interrupt_body_runs_after_block_end", n),
                             f"tick {tick}: {n.id} {type(n).__name__} below {type(w).__name__} {w.id} started and "
                             f"executed after its block {_nm(b)} had ended"))
            else:
                res.count("start_flag_only_after_block_end")

        for idx, n, m, ends, tick in macro_after_end:
            if not any(e[6] == id(n) and e[1] in EXEC and e[0] <= err_tick for e in trace[idx:]):
                res.count("start_flag_only_after_block_end")
                continue
            mech = "C05.macro_body_continues_after_block_end"
            if call_reset_while_running.get((top_of(n), m.macro_name), 10 ** 9) <= tick:
                mech = "C05.interrupt_survives_reset_of_enclosing_scope"
            for c, _t in ends:
                for x in c.parents:
                    if (isinstance(x, p.NodeWithCondition) and S(id(x))["stale"] and any(
                            isinstance(a, (p.AlarmNode, p.MacroNode)) for a in x.parents)) or (
                            isinstance(x, p.BlockNode) and S(id(x))["reset_while_active"] is not None):
                        mech = "C05.interrupt_survives_reset_of_enclosing_scope"
            viol.append((mech, f"tick {tick}: {n.id} {type(n).__name__} in the body of macro {m.macro_name} started and "
                         f"executed although every call in progress lies inside a block that has ended: "
                         + ", ".join(f"call {c.id} in block "
                                     f"{[_nm(b) for b in c.parents if isinstance(b, p.BlockNode) and S(id(b))['block_ended']]}"
                                     f" ended in tick {t}" for c, t in ends)))

        # ---------------- tick-end invariant (first occurrence of each kind per case)
        reported = set()
        for sn in snaps:
            k = sn["tick"]
            active, lag, tag = sn["active"], sn["lag"], sn["tag"]
            res.count("tick_end_checks")
            if active:
                res.count("ticks_with_active_block")
                if len(active) > 1:
                    res.count("ticks_with_nested_active_blocks")
            if not _chain(active):
                if "chain" not in reported:
                    reported.add("chain")
                    viol.append((classify("C05.active_blocks_not_a_chain", active[0]), f"tick {k}: active blocks "
                                 f"{[_nm(b) for b in active]} are not nested in each other"))
                continue
            inner = max(active, key=lambda n: len(n.parents)) if active else None
            allowed = {inner.name} if inner is not None else {None, ""}
            if lag:
                res.count("tick_ends_in_lag_window")      # an ended block still holds its lock flag (one tick)
            if tag not in allowed:
                kind = "tag" if inner is not None else "tag0"
                if kind in reported:
                    continue
                reported.add(kind)
                if inner is not None:
                    named = [b for b in sn["blocks"] if b.name == tag]
                    mech = "C05.block_tag_wrong"
                    if any(S(id(b)).get("end_block_while_lagging", 10 ** 9) <= k for b in named):
                        mech = "C05.end_block_retags_ended_block"
                    for b in named + [inner]:
                        mech = classify(mech, b)
                    viol.append((mech, f"tick {k}: Block tag = {tag!r}, innermost active block is {inner.name!r} "
                                 f"(active {[_nm(b) for b in active]}, ended but still locked {[_nm(b) for b in lag]})"))
                else:
                    named = [b for b in sn["blocks"] if b.name == tag]
                    if sn["stale_tag"] is not None and tag == sn["stale_tag"]:
                        mech = "C05.block_tag_survives_restart"
                        extra = f"; the previous run ended while the tag was {tag!r} and nothing has set it since"
                    elif any(S(id(b))["reset_while_active"] is not None and S(id(b))["reset_while_active"] <= k
                             for b in named):
                        mech = "C05.interrupt_survives_reset_of_enclosing_scope"
                        extra = ("; that block was active in an interrupt when the re-arm of its enclosing Alarm / a "
                                 "new macro invocation reset its lock flag")
                    elif any(S(id(b)).get("end_block_while_lagging", 10 ** 9) <= k for b in named):
                        mech = "C05.end_block_retags_ended_block"
                        extra = ("; that block had already ended (lock flag not yet released) when a further `End "
                                 "block` took the new tag value from the locked blocks")
                    elif any(b.block_ended or S(id(b))["block_ended"] for b in named):
                        mech = "C05.block_tag_names_ended_block"
                        extra = "; that block has ended"
                    else:
                        mech = "C05.block_tag_wrong"
                        extra = ""
                    viol.append((mech, f"tick {k} (System State {sn['state']}): Block tag = {tag!r} but no block is "
                                 f"active{extra}"))
            for w, b in sn["reg_in_ended"]:
                if ("reg", id(w)) in reported:
                    continue
                reported.add(("reg", id(w)))
                ws = S(id(w))
                if ws.get("pending_at_block_end", 10 ** 9) > k:
                    # its line had started before the block ended and it registered afterwards: it was not pending
                    # when the block ended - the statement does not say what becomes of it; counted, not judged
                    res.count("registered_after_block_end_not_pending")
                    continue
                if ws["rereg_after_abort"] is not None and ws["rereg_after_abort"] <= k:
                    mech = "C05.aborted_interrupt_registers_itself_again"
                else:
                    mech = classify("C05.interrupt_still_registered_after_block_end", w)
                viol.append((mech, f"tick {k}: {type(w).__name__} {w.id} inside ended block {_nm(b)} is (still or "
                             f"again) registered"))
        nontrivial = acquired >= 2 or by_interrupt > 0 or blockend_pending > 0 or blockend_macro > 0
        res.case([shape_hash(text), case.get("variant")] if nontrivial else None,
                 sample={"method": text, "variant": case.get("variant"), "ctl": case.get("ctl"), "ticks": rig.k,
                         "locks": acquired, "end_blocks_by_interrupt": by_interrupt, "marks": rig.marks()[:10]})
    finally:
        rig.close()
    seen_v = set()
    for mech, msg in viol:
        if (mech, msg) in seen_v:
            continue
        seen_v.add((mech, msg))
        res.violation(mech, msg, case)


def plan(tier, seed):
    n = 2400 if tier == "quick" else 48000
    shards = 16 if tier == "quick" else 64
    per = n // shards
    return [{"seed": seed * 1000003 + i, "n": per, "max_depth": 4} for i in range(shards)]


def run_shard(spec):
    res = Result()
    rnd = random.Random(spec["seed"])
    for _ in range(spec["n"]):
        case = gen_case(rnd, spec.get("max_depth", 4))
        check_case(case, res)
    return res


def replay(case):
    res = Result()
    check_case(case, res)
    return res
