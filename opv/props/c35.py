"""C35 - Error-log aggregation loses nothing and counts repeats.

Differential monitor: the real `AggregatedErrorLog.aggregate_with` (called directly and, in two shards, through
the real `ErrorLogMsg` handler path of the aggregator rig) against a reference fold that implements the
statement literally, plus an independent conservation count (see DESIGN.md C35)."""
from __future__ import annotations

import asyncio
import random

from opv.core import Result

ID = "C35"
LEVEL = "exploration"
TECHNIQUE = "runtime monitoring: differential against a literal reference fold + conservation count, per batch"
RULE = ("seeded sequences of 1-24 error-log entries over 3 messages x 2 severities (half of the cases: the three short "
        "messages 'pump fault' / 'valve stuck' / 'pump fault '; the other half: a base message of 0-65537 characters - "
        "lengths 2^k-1, 2^k, 2^k+1 for k <= 16, 10^k-1, 10^k, 10^k+1 for k <= 4 and uniform 0-6000 - built from an ASCII, "
        "a non-ASCII (accents, CJK, combining mark, astral plane) or a multi-line (\\n, \\r\\n, tab, quotes) text, plus two "
        "relatives of it: one character replaced near the end or next to a length boundary, one character more or "
        "less, one character replaced near the start (long common suffix), another text of the same length, or a "
        "short message; messages are always compared in full), times on a grid with zero, "
        "positive and (in a third of the cases) negative steps, cut into batches of 0-5 entries, with redeliveries "
        "(the engine resends what it got no reply for): a whole batch again, the last k entries of a batch again in "
        "front of the next batch (partial overlap, possibly followed by a new later entry), two consecutive batches "
        "again as one; a quarter of the cases are built around one run of 3-8 repeats of a single entry so that the "
        "redelivered entries carry times EARLIER than the aggregated latest time; aggregated log compared with the "
        "reference after every batch. distinct = hash of the entry "
        "sequence + batch cut; non-trivial = at least one merge of increasing times and at least two aggregated "
        "entries in the judged prefix")
ASSUMPTIONS = [
    "the statement is read as a left fold over the concatenated batches: an entry is compared with the last "
    "aggregated entry only ('consecutive')",
    "identical-time entries are redelivered duplicates: they add no occurrence and do not change the time",
    "the reference remembers the times of the entries merged into the current (last) aggregate. An entry with the same "
    "message/severity whose time is EARLIER than the aggregated latest time and equals one of those times is a "
    "redelivered duplicate of an entry that was already counted: it adds no occurrence, does not change the time and "
    "is not appended as a distinct entry (conservation: sum of occurrences + duplicates = entries fed)",
    "an entry with the same message/severity and an earlier time that was NEVER merged into the current aggregate is "
    "outside the statement: the case is judged up to the entry before it; the remainder is executed, counted and "
    "not judged",
    "a repeated (message, severity) after a different entry is a distinct entry and is appended (order clause)",
]
REQUIRED = {"batches_compared": 2000, "merges_checked": 1000, "identical_time_duplicates": 200,
            "cross_batch_merges": 200, "conservation_checks": 2000, "via_handler_batches": 100,
            "redelivered_earlier_time_duplicates": 2000, "redelivered_batches_with_earlier_times_judged": 500,
            "partial_overlap_redeliveries_judged": 200, "via_handler_redelivered_earlier_time_duplicates": 50,
            # wide message alphabet (lengths 0 .. 65537, relatives differing late / early / by one character)
            "wide_message_cases": 3000, "wide_message_batches_compared": 15000,
            "long_message_merges_256plus": 6000, "long_message_merges_1024plus": 4000,
            "long_message_merges_4096plus": 2000, "long_message_merges_65536plus": 200,
            "long_message_redelivered_duplicates": 4000, "long_message_redelivered_duplicates_1024plus": 3000,
            "late_difference_kept_distinct_256plus": 700, "late_difference_kept_distinct_1024plus": 500,
            "late_difference_kept_distinct_4096plus": 200, "proper_prefix_kept_distinct": 1000,
            "early_difference_long_common_suffix_kept_distinct": 150, "empty_message_merges": 40,
            "non_ascii_message_merges": 2000, "multiline_message_merges": 2000, "via_handler_long_message_merges": 500}

MSGS = ("pump fault", "valve stuck", "pump fault ")   # third differs by a trailing blank only
SEVS = (30, 40)

# ---------------------------------------------------------------------------------------------------------------------
# wide message alphabet: a case carries a list of message specs ("msgs"), its batches refer to them by index.
# spec = plain string | {"unit": <key of UNITS>, "len": L, "edits": [[position, replacement character], ...]}:
# the unit text repeated/cut to exactly L characters, then single characters replaced.
UNITS = {
    "ascii": "Hardware write failed for register R%03d=0x1f3c; ",
    "unicode": "Tryk for h\u00f8jt p\u00e5 s\u00f8jle \u6e29\u5ea6\u8b66\u544a e\u0301 \U0001f6a8 \u00b5S/cm ",
    "multiline": "Traceback (most recent call last):\n  File \"uod.py\", line 7\r\n\tValueError: bad \"value\"\n\n",
}
LEN_BOUNDARIES = sorted({0} | {b + d for b in [2 ** k for k in range(0, 17)] + [10 ** k for k in range(1, 5)]
                               for d in (-1, 0, 1)})
EDIT_CHARS = {"ascii": "#", "unicode": "\u00e6", "multiline": "\n"}


def build_msg(spec) -> str:
    if isinstance(spec, str):
        return spec
    unit = UNITS[spec["unit"]]
    ln = spec["len"]
    s = (unit * (ln // len(unit) + 1))[:ln]
    for pos, ch in spec.get("edits", ()):
        if 0 <= pos < ln:
            s = s[:pos] + ch + s[pos + 1:]
    return s


def _pick_len(rnd: random.Random) -> int:
    r = rnd.random()
    if r < 0.04:
        return rnd.choice([65535, 65536, 65537])
    if r < 0.14:
        return rnd.choice([8191, 8192, 8193, 16383, 16384, 16385, 32767, 32768, 32769])
    if r < 0.50:
        return rnd.choice([b for b in LEN_BOUNDARIES if 255 <= b <= 4097])
    if r < 0.75:
        return rnd.choice([b for b in LEN_BOUNDARIES if b < 255])
    return rnd.randint(0, 6000)


def gen_msgs(rnd: random.Random):
    """Three message specs for one case: a base message of a boundary length and two relatives of it - equal up to a
    late position (the last character, a position next to a length boundary, one character more or less), equal from an
    early position on (common suffix), or unrelated."""
    unit = rnd.choice(["ascii", "ascii", "unicode", "multiline"])
    ln = _pick_len(rnd)
    base = {"unit": unit, "len": ln, "edits": []}
    ch = EDIT_CHARS[unit]

    def relative():
        k = rnd.choice(["late", "late", "boundary", "longer", "shorter", "early", "unrelated", "other_unit"])
        if k == "late" and ln >= 1:
            return {"unit": unit, "len": ln, "edits": [[ln - 1 - rnd.choice([0, 0, 1, 2, 7]), ch]]}
        if k == "boundary" and ln >= 2:
            cands = [b + d for b in LEN_BOUNDARIES for d in (-1, 0) if 0 <= b + d < ln]
            return {"unit": unit, "len": ln, "edits": [[rnd.choice(cands[-12:]), ch]]}
        if k == "longer":
            return {"unit": unit, "len": ln + rnd.choice([1, 1, 2, 24]), "edits": []}
        if k == "shorter" and ln >= 1:
            return {"unit": unit, "len": ln - 1, "edits": []}
        if k == "early" and ln >= 1:
            return {"unit": unit, "len": ln, "edits": [[rnd.choice([0, 0, 1, 3]), ch]]}
        if k == "other_unit":
            return {"unit": rnd.choice([u for u in UNITS if u != unit]), "len": ln, "edits": []}
        return rnd.choice(MSGS)
    out = [base]
    for _ in range(2):
        for _try in range(8):
            m = relative()
            if all(build_msg(m) != build_msg(o) for o in out):
                out.append(m)
                break
        else:
            out.append(rnd.choice([x for x in MSGS if all(x != build_msg(o) for o in out)]))
    rnd.shuffle(out)
    return out


def common_prefix_len(a: str, b: str) -> int:
    lo, hi = 0, min(len(a), len(b))
    while lo < hi:                     # largest n with a[:n] == b[:n]
        mid = (lo + hi + 1) // 2
        if a[:mid] == b[:mid]:
            lo = mid
        else:
            hi = mid - 1
    return lo


def abbr(m: str):
    if len(m) <= 80:
        return m
    import hashlib
    return f"<{len(m)} chars sha1={hashlib.sha1(m.encode('utf-8', 'surrogatepass')).hexdigest()[:10]} {m[:24]!r}...{m[-16:]!r}>"


def abbr_entries(entries):
    return [[abbr(e[0])] + list(e[1:]) for e in entries]


def plan(tier, seed):
    n = 16000 if tier == "quick" else 640000
    shards = 16 if tier == "quick" else 32
    return [{"seed": seed * 1000003 + i, "n": n // shards, "via_handler": i < 2} for i in range(shards)]


def gen_case(rnd: random.Random):
    wide = rnd.random() < 0.5
    specs = gen_msgs(rnd) if wide else None
    MSGS = (0, 1, 2) if wide else globals()["MSGS"]      # wide cases refer to their message specs by index
    n = rnd.randint(1, 24)
    early_p = rnd.choice([0.0, 0.0, 0.08])
    stick = rnd.choice([0.3, 0.6, 0.85])
    t = 1000.0 + rnd.randint(0, 5) * 0.5
    entries = []
    cur = (rnd.choice(MSGS), rnd.choice(SEVS))
    run_case = rnd.random() < 0.25
    if run_case:
        # a few arbitrary entries, then one run of repeats of a single entry with (mostly) increasing times
        n = rnd.randint(0, 4)
        early_p = 0.0
    for _ in range(n):
        if rnd.random() > stick:
            cur = (rnd.choice(MSGS), rnd.choice(SEVS)) if rnd.random() < 0.7 else (cur[0], rnd.choice(SEVS))
        r = rnd.random()
        if r < early_p:
            tt = t - rnd.choice([0.5, 1.0, 2.5])
        else:
            t = t + rnd.choice([0.0, 0.0, 0.5, 1.0, 0.25, 3.0])
            tt = t
        entries.append([cur[0], tt, cur[1]])
    if run_case:
        cur = (rnd.choice(MSGS), rnd.choice(SEVS))
        for _ in range(rnd.randint(3, 8)):
            t = t + rnd.choice([0.0, 0.5, 1.0, 0.25, 3.0, 1.0])
            entries.append([cur[0], t, cur[1]])
    # cut into batches
    batches = []
    i = 0
    while i < len(entries):
        k = rnd.choice([0, 1, 1, 2, 3, 5]) if not run_case else rnd.choice([1, 2, 3, 3, 5, 8])
        batches.append(entries[i:i + k])
        i += k
    redeliveries = []
    p_whole, p_overlap, p_two = (0.35, 0.15, 0.1) if not run_case else (0.5, 0.5, 0.3)
    # whole-batch redelivery (the engine resends a batch it got no reply for)
    if rnd.random() < p_whole and batches:
        j = rnd.randrange(len(batches))
        batches.insert(j + 1, [list(e) for e in batches[j]])
        redeliveries.append(["whole", j + 1])
    # partially overlapping redelivery: the last k entries of a batch arrive again in front of the next batch
    if rnd.random() < p_overlap and batches:
        j = rnd.randrange(len(batches))
        if batches[j]:
            k = rnd.randint(1, len(batches[j]))
            head = [list(e) for e in batches[j][-k:]]
            if j + 1 < len(batches) and rnd.random() < 0.7:
                batches[j + 1] = head + batches[j + 1]
            else:
                last = batches[j][-1]
                tail = [[last[0], max(e[1] for b in batches for e in b) + rnd.choice([0.5, 1.0]), last[2]]] \
                    if rnd.random() < 0.7 else []
                batches.insert(j + 1, head + tail)
            redeliveries.append(["overlap", j + 1, k])
    # two consecutive batches again, as one
    if rnd.random() < p_two and len(batches) >= 2:
        j = rnd.randrange(len(batches) - 1)
        batches.insert(j + 2, [list(e) for e in batches[j] + batches[j + 1]])
        redeliveries.append(["two_as_one", j + 2])
    case = {"batches": batches, "redeliveries": redeliveries}
    if wide:
        case["msgs"] = specs
    return case


class RefFold:
    """The statement, literally; plus the set of times already merged into the current aggregate."""

    def __init__(self):
        self.entries: list[list] = []   # [message, severity, time, occurrences]
        self.merged_times: set = set()  # times of the input entries merged into entries[-1]
        self.n_in = 0
        self.dups = 0
        self.redelivered = 0
        self.merges = 0
        self.out_of_statement = False

    def feed(self, msg, t, sev) -> str:
        self.n_in += 1
        last = self.entries[-1] if self.entries else None
        if last is not None and last[0] == msg and last[1] == sev:
            if t > last[2]:
                last[2] = t
                last[3] += 1
                self.merges += 1
                self.merged_times.add(t)
                return "merge"
            if t == last[2]:
                self.dups += 1
                return "dup"
            if t in self.merged_times:
                # an entry with exactly this time was counted into this aggregate before: redelivered duplicate
                self.dups += 1
                self.redelivered += 1
                return "redelivered"
            self.out_of_statement = True
            return "earlier"
        self.entries.append([msg, sev, t, 1])
        self.merged_times = {t}
        return "new"


def classify(impl, ref):
    ik = [(e[0], e[1]) for e in impl]
    rk = [(e[0], e[1]) for e in ref]
    if ik != rk:
        if len(ik) < len(rk) and _is_subsequence(ik, rk):
            return "C35.entry_lost"
        if sorted(ik) == sorted(rk):
            return "C35.distinct_entries_reordered"
        if len(ik) > len(rk):
            return "C35.repeat_not_merged"
        return "C35.entry_sequence_differs"
    if any(a[3] != b[3] for a, b in zip(impl, ref)):
        return "C35.occurrence_count_wrong"
    if any(a[2] != b[2] for a, b in zip(impl, ref)):
        return "C35.time_is_not_latest"
    return None


def _is_subsequence(a, b):
    it = iter(b)
    return all(x in it for x in a)


def _snapshot(log):
    return [[e.message, e.severity, e.created_time, e.occurrences] for e in log.entries]


LONG_CLASSES = (256, 1024, 4096, 65536)


def _msg_counters(res: Result, kind: str, msg: str, last_msg, same_sev: bool, via_handler: bool, cp_cache: dict):
    """Counters proving that the wide message strata were reached and judged (kind = outcome of the reference)."""
    ln = len(msg)
    if kind == "merge":
        for c in LONG_CLASSES:
            if ln >= c:
                res.count(f"long_message_merges_{c}plus")
        if ln >= 256 and via_handler:
            res.count("via_handler_long_message_merges")
        if ln == 0:
            res.count("empty_message_merges")
        if not msg.isascii():
            res.count("non_ascii_message_merges")
        if "\n" in msg:
            res.count("multiline_message_merges")
    elif kind in ("dup", "redelivered") and ln >= 256:
        res.count("long_message_redelivered_duplicates")
        if ln >= 1024:
            res.count("long_message_redelivered_duplicates_1024plus")
    elif kind == "new" and last_msg is not None and same_sev and last_msg != msg:
        key = (last_msg, msg) if id(last_msg) <= id(msg) else (msg, last_msg)
        cp = cp_cache.get(key)
        if cp is None:
            cp = cp_cache[key] = common_prefix_len(msg, last_msg)
        for c in LONG_CLASSES[:3]:
            if cp >= c:
                res.count(f"late_difference_kept_distinct_{c}plus")
        if cp == min(ln, len(last_msg)) and cp >= 1:
            res.count("proper_prefix_kept_distinct")
        if cp < 8 and min(ln, len(last_msg)) >= 256 and msg[8:] == last_msg[8:]:
            res.count("early_difference_long_common_suffix_kept_distinct")


async def check_case(case, res: Result, rig=None, eid=None):
    import openpectus.aggregator.models as Mdl
    import openpectus.protocol.models as PM

    if rig is not None:
        from opv.rigs.aggregator_rig import error_log_msg
        ed = rig.engine_data(eid)
        ed.error_log.clear()
        log = ed.error_log
    else:
        log = Mdl.AggregatedErrorLog.empty()
    ref = RefFold()
    judged = True
    n_batches_judged = 0
    cross = 0
    viol = None
    # wide cases carry message specs and refer to them by index; messages are always compared in full
    table = [build_msg(sp) for sp in case.get("msgs") or ()]
    if table:
        res.count("wide_message_cases")
    cp_cache: dict = {}
    for bi, raw_batch in enumerate(case["batches"]):
        batch = [(table[m] if isinstance(m, int) else m, t, sev) for m, t, sev in raw_batch]
        first_in_batch = True
        redelivered_in_batch = 0
        for msg, t, sev in batch:
            if judged:
                had_entries = bool(ref.entries)
                last = ref.entries[-1] if had_entries else None
                last_msg, same_sev = (last[0], last[1] == sev) if last is not None else (None, False)
                kind = ref.feed(msg, t, sev)
                _msg_counters(res, kind, msg, last_msg, same_sev, rig is not None, cp_cache)
                if kind == "earlier":
                    judged = False
                    res.count("earlier_time_entries_excluded")
                elif kind == "merge":
                    res.count("merges_checked")
                    if first_in_batch and had_entries and bi > 0:
                        cross += 1
                elif kind == "dup":
                    res.count("identical_time_duplicates")
                elif kind == "redelivered":
                    res.count("redelivered_earlier_time_duplicates")
                    if rig is not None:
                        res.count("via_handler_redelivered_earlier_time_duplicates")
                    redelivered_in_batch += 1
            else:
                res.count("entries_after_exclusion_not_judged")
            first_in_batch = False
        if rig is not None:
            reply = await rig.send(error_log_msg(eid, [(m, t, s) for m, t, s in batch]))
            res.count("via_handler_batches")
            if rig.handler_errors:
                viol = ("C35.handler_raised", f"ErrorLogMsg handler raised: {rig.handler_errors[-1]}")
                rig.handler_errors.clear()
                break
            assert rig.engine_data(eid).error_log is log
        else:
            log.aggregate_with(PM.ErrorLog(entries=[PM.ErrorLogEntry(message=m, created_time=t, severity=s)
                                                    for m, t, s in batch]))
        if not judged:
            continue   # the batch contained the excluded entry: nothing after it is judged
        impl = _snapshot(log)
        res.count("batches_compared")
        if table:
            res.count("wide_message_batches_compared")
        n_batches_judged += 1
        if redelivered_in_batch:
            res.count("redelivered_batches_with_earlier_times_judged")
            if any(r[0] == "overlap" and r[1] == bi for r in case.get("redeliveries", ())):
                res.count("partial_overlap_redeliveries_judged")
        # independent conservation count on the implementation's output
        res.count("conservation_checks")
        total = sum(e[3] for e in impl)
        if total + ref.dups != ref.n_in:
            mech = "C35.entry_lost" if total + ref.dups < ref.n_in else "C35.occurrence_count_wrong"
            if mech == "C35.occurrence_count_wrong" and redelivered_in_batch and ref.entries and impl and \
                    [e[:2] for e in impl] == [e[:2] for e in ref.entries] and \
                    [e[3] for e in impl[:-1]] == [e[3] for e in ref.entries[:-1]] and \
                    0 < impl[-1][3] - ref.entries[-1][3] <= redelivered_in_batch:
                # only the last aggregate is over-counted, by at most the number of redelivered earlier-time entries
                mech = "C35.redelivered_earlier_time_entry_counted_again"
            viol = (mech, f"conservation broken after batch {bi}: sum(occurrences)={total} + duplicates (identical time "
                          f"or time of an already merged entry)={ref.dups} != entries fed={ref.n_in}; "
                          f"aggregated={abbr_entries(impl)} expected={abbr_entries(ref.entries)}")
            break
        if impl != ref.entries:
            viol = (classify(impl, ref.entries),
                    f"after batch {bi}: aggregated={abbr_entries(impl)} expected={abbr_entries(ref.entries)}")
            break
    res.count("cross_batch_merges", cross)
    if not judged:
        res.count("cases_cut_at_earlier_time_entry")
    interesting = ref.merges >= 1 and len(ref.entries) >= 2 and n_batches_judged >= 1
    key = {"b": case["batches"], "m": case.get("msgs")} if table else {"b": case["batches"]}
    sample = {"batches": case["batches"], "aggregated": abbr_entries(_snapshot(log)), "judged_prefix_entries": ref.n_in}
    if table:
        sample["msgs"] = case["msgs"]
    res.case(key if interesting else None, sample=sample)
    if viol:
        res.violation(viol[0], viol[1], case)


async def _shard(spec, res):
    rnd = random.Random(spec["seed"])
    rig = None
    eid = None
    try:
        if spec.get("via_handler"):
            from opv.rigs.aggregator_rig import AggregatorRig, reg_msg
            rig = AggregatorRig()
            eid = await rig.register(reg_msg())
            await rig.connect(eid)
        for _ in range(spec["n"]):
            await check_case(gen_case(rnd), res, rig, eid)
    finally:
        if rig is not None:
            rig.close()


def run_shard(spec):
    res = Result()
    asyncio.run(_shard(spec, res))
    return res


def replay(case):
    res = Result()
    asyncio.run(check_case(case, res))
    return res
