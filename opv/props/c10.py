"""C10 - Stop and Restart leave no command running and start cleanly.

State/trace invariant evaluated at the tick end at which Stop (or the stop phase of Restart) completes, and on the
run-stopped message built by the real EngineMessageBuilder inside an on_stop listener. See DESIGN.md C10."""
from __future__ import annotations

import random

from opv.core import Result
from opv.gen_pcode import trajectory, shape_hash

ID = "C10"
LEVEL = "exploration"
TECHNIQUE = ("runtime monitoring: state invariant at Stop/Restart completion + run-stopped message built by the real "
             "EngineMessageBuilder in an on_stop listener")
RULE = ("seeded P-code generator (UOD commands Short/Long/Long2/Other/Drive1 of 1-8 ticks, Long/Long2 overlapping, timed "
        "Pause/Hold, Simulate/Simulate off, Block/Watch/Alarm/Macro, Wait, thresholds) x scripted FT01 trajectory; for "
        "every method: user Stop and user Restart issued before every tick 1..T of the run (T = ticks to quiescence, "
        "capped at 40), and a method line Stop / Restart inserted before every instruction line (also inside "
        "Watch/Alarm/Block/Macro bodies); plus, per method, two seeded operator scripts applied between ticks before (the "
        "second command of (a) possibly during) the user Stop/Restart: (a) 1-2 UOD commands started by the operator through execute_control_command_from_user "
        "(Long/Long2/Other/Drive1/Short, same-name and overlapping pairs included) at a random tick, (b) a force request "
        "(real handle_forceMsg) on a running method-issued UOD command; Stop and Restart at (up to 8 sampled) ticks of "
        "the window in which that command is alive (+2); plus the failing-line stratum: per method two variants with one "
        "line that fails at run time (13 kinds: Simulate with an inconvertible / unknown unit, with a unit on a unit-less "
        "or categorical tag, on an unknown tag, malformed; UOD command with unparsable arguments / whose exec raises; "
        "engine and interpreter commands with bad arguments; unknown instruction; bad Watch/Alarm condition; undefined "
        "macro) inserted at a seeded position, half of them preceded by a valid Simulate and/or a long-running command "
        "and a third followed by a valid Simulate, on the rig UOD extended by a categorical tag; user Stop and user "
        "Restart before every tick E-1..E+6 (E = tick of the error pause), and operator Unpause at a tick of E..E+4 "
        "followed 0-3 ticks later by Stop / Restart. distinct = (method shape hash, kind, tick or insert position, "
        "operator script); non-trivial = a UOD instance was alive, the engine was paused/holding or a tag was simulated "
        "when the Stop/Restart began")
ASSUMPTIONS = [
    "'Stop/Restart completes' is the end of the first tick at which System State reads Stopped after the request",
    "'shown as completed, failed or cancelled in the run log sent when the run ends' is read on the RunStoppedMsg built "
    "by EngineMessageBuilder.create_run_stopped_msg inside an on_stop event listener that mirrors EngineRunner.on_stop; "
    "a line is conclusive iff it has an end time (the message has no state field; end is only set by "
    "completed/failed/cancelled)",
    "'UOD command started in the run' = every run-log line of a UOD command record (they are rendered as started), "
    "in particular every instance whose init callback ran",
    "'method runs again from its first line': the first line (always `Base: s` here) gets a started=True node event "
    "within 4 ticks after the Stopped tick of the Restart",
    "UOD commands started by the operator have no method line: the engine keeps them out of the run log by design, so "
    "the run-log clause is judged for them only if the run-stopped message does contain a line with their instance id "
    "(otherwise counted as operator_instances_not_in_final_runlog_unjudged); the instance-held, finalised and "
    "nothing-executes-after-Stop clauses apply to them like to any other UOD command",
    "'tag simulations are cleared' is read on everything that reports a tag as simulated: the engine tag's flag, its "
    "read-only TagValue (as_readonly) and the tag snapshot message built by the real "
    "EngineMessageBuilder.create_tag_updates_snapshot_msg right after the Stopped tick; after a Stop also 3 ticks later; "
    "after a Restart in each of the 4 following ticks every tag reported simulated must be the target of a Simulate "
    "line that was started in the new run",
    "a run that sits in the error pause caused by a failing method line is ended by Stop/Restart like any other run: "
    "the property makes no exception for failed runs",
]
REQUIRED = {"stops_completed": 300, "restarts_completed": 300, "stops_with_live_instance": 50, "final_runlog_uod_lines": 200,
            "stops_with_simulated_tag": 10, "stops_while_paused_or_holding": 20, "restart_first_line_checks": 200,
            "method_issued_stops_completed": 30,
            "operator_script_stops_completed": 300, "stops_with_live_operator_instance": 150,
            "operator_instances_finalised_checked": 150, "stops_with_live_forced_instance": 20,
            "stops_in_error_pause": 700, "restarts_in_error_pause": 700, "error_pause_ends_with_simulated_tag": 800,
            "error_pause_ends_with_live_instance": 250, "stops_after_unpause_of_error_pause": 400,
            "simulated_reports_checked": 20000, "snapshot_messages_checked": 8000,
            "restart_next_run_simulation_checks": 10000,
            **{"error_pause_ends_" + k: 100 for k in (
                "sim_inconvertible_unit", "sim_unknown_unit", "sim_unit_on_unitless_tag", "sim_unit_on_categorical_tag",
                "sim_unknown_tag", "sim_malformed", "uod_bad_arguments", "uod_exec_raises",
                "engine_command_bad_arguments", "interpreter_command_bad_arguments", "unknown_instruction",
                "bad_condition", "undefined_macro")}}

UOD_NAMES = ("Short", "Long", "Long2", "Other", "Fail", "Set1", "SetPlain", "Drive1", "Set2", "Mode")


def plan(tier, seed):
    n = 128 if tier == "quick" else 3000
    shards = 16 if tier == "quick" else 50
    return [{"seed": seed * 1000003 + i, "n": max(1, n // shards), "max_depth": 3 if tier == "quick" else 4,
             "first_serial": i * max(1, n // shards)}
            for i in range(shards)]


def gen_method(rnd: random.Random, max_depth=3):
    from opv.rigs.cmd_rig import CmdGen
    g = CmdGen(rnd, p_uod=0.35, max_depth=max_depth,
               allow=("mark", "uod", "wait", "block", "watch", "alarm", "macro", "thr", "pausehold", "sim", "blank"),
               thr_values=("0.2", "0.5", "1", "0", "0.3"))
    text = g.program(rnd.randint(3, 8))
    return {"text": text, "traj": trajectory(rnd, 200), "long_n": rnd.choice([1, 2, 3, 4, 4, 6, 8])}


def reference_length(m, live_ticks: list | None = None) -> int:
    """ticks until nothing happens any more (node events / command callbacks), capped at 40.
    live_ticks (out): the tick counts k after which a UOD instance is alive in the undisturbed run."""
    from opv.rigs import engine_rig as R
    rig = R.EngineRig(m["text"], long_n=m["long_n"])
    try:
        rig.start()
        last = 1
        while rig.k < 40:
            rig.hw.inputs["FT01"] = m["traj"][rig.k]
            n0, c0 = len(R.TRACE), len(rig.cmdlog)
            rig.tick()
            if len(R.TRACE) != n0 or len(rig.cmdlog) != c0:
                last = rig.k
            if live_ticks is not None and rig.uod.command_instances:
                live_ticks.append(rig.k)
            if rig.k - last >= 8 or rig.errors:
                break
        return min(40, last + 2)
    finally:
        rig.close()


OP_NAMES = ("Long", "Long2", "Other", "Drive1", "Long", "Long2", "Other", "Short")


def _op_duration(name: str, long_n: int) -> int:
    return 1 if name == "Short" else long_n + 4 if name == "Drive1" else long_n


def operator_scripts(rnd: random.Random, m, T: int, live_ticks: list) -> list[tuple[list, list]]:
    """[(ops, stop ticks)]: ops = [[k, 'user', uod command name] | [k, 'force', n]] applied when k ticks are done (before
    the Stop/Restart request of the same tick boundary); stop ticks = the ticks of the window in which the operator's
    command / the forced command can still be alive (+2), at most 8 of them (seeded sample)."""
    out = []
    # (a) commands started by the operator
    u = rnd.randint(1, T + 1)
    name = rnd.choice(OP_NAMES)
    ops = [[u, "user", name]]
    end = u + _op_duration(name, m["long_n"])
    if rnd.random() < 0.4:
        u2 = u + rnd.randint(0, 3)
        n2 = rnd.choice(OP_NAMES)
        ops.append([u2, "user", n2])
        end = max(end, u2 + _op_duration(n2, m["long_n"]))
    out.append((ops, _sample(rnd, range(u, end + 3), 8)))
    # (b) a running method-issued command forced by the operator
    if live_ticks:
        u = rnd.choice(live_ticks)
        ops = [[u, "force", rnd.randint(0, 3)]]
        out.append((ops, _sample(rnd, range(u, u + m["long_n"] + 3), 6)))
    return out


def failing_variants(rnd: random.Random, m, serial: int, n: int = 2) -> list[dict]:
    """n variants of method m with one line that fails at run time, the kinds taken round-robin (serial) so that every
    shard meets every kind; the failing line goes before a seeded instruction line (or to the end), half of the variants
    get a valid Simulate and/or a long-running command right before it, a third a valid Simulate right after it."""
    from opv.rigs import cmd_rig as CR
    kinds = list(CR.FAIL_LINES)
    n_lines = len([ln for ln in m["text"].split("\n") if ln.strip() and not ln.strip().startswith("#")])
    out = []
    for j in range(n):
        kind = kinds[(serial * n + j) % len(kinds)]
        new = [rnd.choice(CR.FAIL_LINES[kind])]
        if rnd.random() < 0.5:
            ctx = []
            if rnd.random() < 0.7:
                ctx.append(rnd.choice(CR.FAIL_CONTEXT_SIM))
            if rnd.random() < 0.6 or not ctx:
                ctx.append(rnd.choice(CR.FAIL_CONTEXT_CMD))
            rnd.shuffle(ctx)
            new = ctx + new
        if rnd.random() < 0.33:
            new.append(rnd.choice(CR.FAIL_CONTEXT_SIM))
        pos = rnd.randint(1, n_lines)
        out.append({**m, "text": CR.append_or_insert_lines(m["text"], pos, new), "fail_kind": kind, "uod": "sel"})
    return out


def error_tick(case) -> int | None:
    """tick of the undisturbed run in which the engine reports its first error (None: not within 40 ticks)"""
    from opv.rigs import engine_rig as R
    from opv.rigs import cmd_rig as CR
    rig = R.EngineRig(case["text"], long_n=case["long_n"], uod_factory=CR.select_tag_uod_factory(case["long_n"]))
    try:
        rig.start()
        while rig.k < 40 and not rig.errors:
            rig.hw.inputs["FT01"] = case["traj"][rig.k]
            rig.tick()
        return rig.errors[0][0] if rig.errors else None
    finally:
        rig.close()


def _sample(rnd: random.Random, ticks, n: int) -> list[int]:
    ticks = list(ticks)
    return sorted(rnd.sample(ticks, n)) if len(ticks) > n else ticks


def check_case(case, res: Result):
    """case: text, traj, long_n, kind ('Stop'|'Restart'), at (tick before which the user request is made) or None
    for a method-issued Stop/Restart (text already contains the line)."""
    from opv.rigs import engine_rig as R
    from opv.rigs import cmd_rig as CR

    CR.install_schedule_hook()
    CR.install_request_hooks()
    CR.install_cancel_call_hook()
    CR.reset_request_hooks()
    CR.REQS.clear()
    CR.CANCEL_CALLS.clear()
    kind = case["kind"]
    at = case.get("at")
    ops = case.get("ops") or []
    forced: set = set()
    fail_kind = case.get("fail_kind")
    rig = R.EngineRig(case["text"], long_n=case["long_n"],
                      uod_factory=CR.select_tag_uod_factory(case["long_n"]) if case.get("uod") == "sel" else None)
    sl = CR.StopListener(rig)
    rq = CR.Requests(rig) if any(o[1] == "force" for o in ops) else None
    unpaused_error_pause = [False]
    viol: list[tuple] = []
    nontrivial = False
    try:
        rig.start()
        run1 = rig.tag("Run Id")
        requested_at = None
        pre = None
        stopped_tick = None
        limit = (at + 10) if at is not None else 70
        while rig.k < limit:
            for op in ops:
                if op[0] == rig.k:
                    if op[1] == "ctl":
                        # operator control command (Unpause of the error pause) through the real user entry point
                        was = bool(rig.errors) and rig.e._runstate_paused
                        ok = rig.user(op[2])
                        res.count("operator_control_commands_accepted" if ok else "operator_control_commands_rejected")
                        unpaused_error_pause[0] = unpaused_error_pause[0] or (ok and was and op[2] == "Unpause")
                        continue
                    _apply_op(rig, rq, op, forced, res)
            if at is not None and rig.k == at:
                pre = _pre_state(rig, CR.USER_IIDS, forced)
                if not rig.user(kind):
                    res.count("request_rejected")
                    res.case(None)
                    return
                requested_at = rig.k
            rig.hw.inputs["FT01"] = case["traj"][min(rig.k, len(case["traj"]) - 1)]
            if at is None:
                p0 = _pre_state(rig, CR.USER_IIDS, forced)
            rig.tick()
            if at is None and requested_at is None and any(q[1] == kind and q[3] != "user" for q in CR.REQS):
                requested_at = rig.k - 1
                pre = p0
            if requested_at is not None and rig.state == "Stopped":
                stopped_tick = rig.k
                break
            if rig.errors and at is None and requested_at is None:
                break
        if requested_at is None:
            res.count("method_stop_line_not_reached")
            res.case(None)
            return
        if stopped_tick is None:
            # not asserted here (C06/C13): the request was accepted but the engine never read Stopped
            res.count("stop_not_completed_within_10_ticks")
            res.case(None, sample={"method": case["text"], "kind": kind, "at": at})
            return
        res.count("stops_completed" if kind == "Stop" else "restarts_completed")
        if at is None:
            res.count("method_issued_stops_completed")
        assert pre is not None
        if pre["live"]:
            res.count("stops_with_live_instance")
        if pre["simulated"]:
            res.count("stops_with_simulated_tag")
        if pre["paused"] or pre["holding"]:
            res.count("stops_while_paused_or_holding")
        if any(o[1] in ("user", "force") for o in ops):
            res.count("operator_script_stops_completed")
        if pre["error"]:
            # the run had hit a failing line before the Stop/Restart began
            res.count("stops_after_error")
            if fail_kind:
                res.count("error_pause_ends_" + fail_kind)
            if pre["paused"] and not unpaused_error_pause[0]:
                res.count("stops_in_error_pause" if kind == "Stop" else "restarts_in_error_pause")
                if pre["simulated"]:
                    res.count("error_pause_ends_with_simulated_tag")
                if pre["live"]:
                    res.count("error_pause_ends_with_live_instance")
            if unpaused_error_pause[0]:
                res.count("stops_after_unpause_of_error_pause")
        if pre["live_user"]:
            res.count("stops_with_live_operator_instance")
        if pre["live_forced"]:
            res.count("stops_with_live_forced_instance")
        nontrivial = bool(pre["live"] or pre["simulated"] or pre["paused"] or pre["holding"])

        # ---------------- invariant at the Stopped tick end
        s = stopped_tick
        log = list(rig.cmdlog)
        inst = sorted(rig.uod.command_instances)
        per: dict[str, list] = {}
        for ev in log:
            per.setdefault(ev[3], []).append(ev)
        # same-tick bursts of mutually conflicting requests (the C11 mechanism): the older request re-creates its instance
        alive: set = set()
        alive_at: dict[int, set] = {}
        cur = None
        for ev in log:
            if ev[0] != cur:
                cur = ev[0]
                alive_at[cur] = set(alive)
            if ev[1] == "init":
                alive.add(ev[3])
            elif ev[1] == "fin":
                alive.discard(ev[3])
        name_of = {iid: evs[0][2] for iid, evs in per.items()}
        bursts = CR.burst_tainted(list(CR.REQS), alive_at, name_of, _conflicts, UOD_NAMES)
        tainted = set().union(*bursts.values()) if bursts else set()
        race = CR.stop_race_tainted(list(CR.REQS), alive_at, name_of, _conflicts, UOD_NAMES,
                                    {i: [e[0] for e in evs if e[1] == "init"] for i, evs in per.items()})
        ent = next((x for x in sl.stops if x["run_id"] == run1), None)
        misbooked = CR.misbooked_conclusions(ent["records"]) if ent is not None else set()

        cancel_aborted = {f[1] for f in CR.CANCEL_MARK_FAILS if f[1] is not None}
        # calls in which mark_cancelled raised and the command object was left un-cancelled: the cancellation was aborted
        # before command.cancel() ran. That is NOT the known shape below (there cancel() has run, only finalize and the
        # cancelled state are missing) - such instances keep their default mechanism key.
        never_cancelled = CR.cancel_refused_without_cancelling()

        # UOD requests that arrived while the Restart was already in progress (dequeued after the tick that dequeued the
        # Restart request, up to the Stopped tick) and for which CommandManager._cancel_command was never called
        cancel_called = {c[1] for c in CR.CANCEL_CALLS} | {c[3] for c in CR.CANCEL_CALLS}
        t_restart = min((q[0] for q in CR.REQS if q[1] == "Restart"), default=None)
        during_restart = {q[2] for q in CR.REQS
                          if kind == "Restart" and t_restart is not None and q[1] in UOD_NAMES
                          and t_restart < q[0] <= s and q[2] not in cancel_called}

        def mech_for(iids, default):
            if iids and all(i in during_restart for i in iids):
                # Restart cancels running commands only in its first tick (Stop has a second pass in its last tick): a
                # command requested while the state reads Restarting starts in the tick in which the restart completes,
                # is never cancelled, and is orphaned when the new run gets a new CommandManager
                return "C10.command_requested_while_restarting_survives_restart"
            if iids and all(i in cancel_aborted and i not in never_cancelled for i in iids):
                # the Stop's cancel of this instance aborted inside Tracking.mark_cancelled (node.cancel() refused because
                # the line's cancel flag was already set by the cancel of its previous instance): finalize is delayed to
                # the next tick and no cancelled state is ever recorded
                return "C10.cancel_aborted_before_finalize_node_refused_cancel"
            if iids and all(i in race for i in iids):
                return "C10.command_requested_in_tick_of_stop_survives_stop"
            if iids and all(i in race or i in tainted for i in iids):
                return "C10.conflicting_requests_in_one_tick"
            return default

        if inst:
            # one violation per mechanism: instances leaked for different reasons must not hide each other's key
            by_mech: dict = {}
            # command objects created for a request whose argument string could not be parsed: the request is dropped and
            # marked failed before the command is initialised, the object stays in uod.command_instances for ever
            unparsable = _never_started_failed_instances(ent["records"] if ent is not None else [])
            for c in rig.uod.command_instances.values():
                default = "C10.uod_instance_held_after_stop"
                if c.instance_id in unparsable and c.instance_id not in per and not c.is_initialized() \
                        and any(e[1] == "ValueError" and e[2] == f"Invalid arguments for command '{c.name}'"
                                for e in rig.errors):
                    default = "C10.uod_command_with_unparsable_arguments_keeps_instance_after_stop"
                by_mech.setdefault(mech_for([c.instance_id], default), []).append(c.name)
            for mech, names in by_mech.items():
                viol.append((mech, f"{kind} completed at tick {s} but uod.command_instances still holds {sorted(names)}"))
        res.count("operator_instances_finalised_checked", sum(1 for i in per if i in CR.USER_IIDS and per[i][0][1] == "init"))
        res.count("forced_instances_finalised_checked", sum(1 for i in per if i in forced))
        for iid in sorted(alive):
            evs = per[iid]
            if True:
                viol.append((mech_for([iid], "C10.instance_not_finalized_at_stop"),
                             f"{kind} completed at tick {s} but instance {iid[:8]} of {evs[0][2]} (init tick "
                             f"{evs[0][0]}, last callback {evs[-1][1]} at tick {evs[-1][0]}) is not finalized"))
        # run-stopped message
        if ent is None:
            viol.append(("C10.no_on_stop_event", f"{kind} completed at tick {s} but no on_stop event carried run id {run1}"))
        elif ent["msg"] is None:
            suffix, desc = CR.classify_records(ent["records"], (), tainted | race, CR.shared_instance_ids())
            viol.append(("C10.final_runlog_unproducible_" + suffix if suffix else "C10.run_stopped_message_cannot_be_built",
                         f"create_run_stopped_msg raised inside on_stop (tick {ent['tick']}): {ent['exc']}; {desc}"))
        else:
            lines = {ln.id: ln for ln in ent["msg"].runlog.lines}
            for iid, evs in per.items():
                if evs[0][1] != "init":
                    continue
                ln = lines.get(iid)
                if ln is None and iid in CR.USER_IIDS:
                    # started by the operator: no method line, kept out of the run log by design (see ASSUMPTIONS)
                    res.count("operator_instances_not_in_final_runlog_unjudged")
                    continue
                res.count("final_runlog_uod_lines")
                if ln is None:
                    viol.append((mech_for([iid], "C10.executed_uod_command_missing_in_final_runlog"),
                                 f"instance {iid[:8]} of {evs[0][2]} (init tick {evs[0][0]}) has no line in the run-stopped "
                                 f"message"))
                elif ln.end is None:
                    mech = "C10.conclusion_recorded_on_newer_instance_of_same_line" if iid in misbooked else \
                        mech_for([iid], "C10.uod_command_not_conclusive_in_final_runlog")
                    viol.append((mech, f"line {ln.command_name!r} ({iid[:8]}, init tick {evs[0][0]}, finalized="
                                 f"{any(e[1] == 'fin' for e in evs)}) of the run-stopped message has no end: "
                                 f"cancelled={ln.cancelled} failed={ln.failed}"))
            for ln in ent["msg"].runlog.lines:
                if ln.id in per or ln.command_name.split(":")[0] not in UOD_NAMES:
                    continue
                res.count("final_runlog_uod_lines_never_initialised")
                if ln.end is None:
                    # the interpreter had just visited the line (run-log item created) when the Stop arrived; the
                    # command itself was never requested/initialised. Whether such a line counts as a "UOD command
                    # started in the run" is ambiguous -> counted, not judged.
                    res.count("unjudged_visited_but_never_requested_uod_line_left_open")
        sim = _reported_simulated(rig, sl.builder, res)
        if sim:
            viol.append(("C10.simulation_survives_stop", f"{kind} completed at tick {s} but tags are still reported as "
                         f"simulated: {sim}"))
        if rig.tag("Run Id") is not None:
            viol.append(("C10.run_id_not_cleared", f"{kind} completed at tick {s} but Run Id is {rig.tag('Run Id')}"))

        # ---------------- Restart: new run id, first line again
        if kind == "Restart":
            new_id = None
            first_started = None
            n_tr = len(R.TRACE)
            sim_lines = _simulate_line_targets(case["text"])
            for _ in range(4):
                rig.hw.inputs["FT01"] = case["traj"][min(rig.k, len(case["traj"]) - 1)]
                rig.tick()
                if new_id is None and rig.tag("Run Id") is not None:
                    new_id = rig.tag("Run Id")
                # the next run starts cleanly: a tag is simulated only by a Simulate line visited in the new run
                touched = {sim_lines[e[2]] for e in R.TRACE[n_tr:]
                           if e[1] in ("started", "restarted", "completed", "failed") and e[5] is True and e[2] in sim_lines}
                res.count("restart_next_run_simulation_checks")
                left = {n: src for n, src in _reported_simulated(rig, None, res).items() if n not in touched}
                if left and not any(v[0] == "C10.simulation_survives_restart_into_next_run" for v in viol):
                    viol.append(("C10.simulation_survives_restart_into_next_run",
                                 f"tick {rig.k} after the Restart stopped at tick {s}: tags reported as simulated although "
                                 f"no Simulate line on them was visited in the new run: {left}"))
                if first_started is None and any(e[1] == "started" and e[5] is True and e[2] == "L0"
                                                 for e in R.TRACE[n_tr:]):
                    first_started = rig.k
            res.count("restart_first_line_checks")
            if new_id is None:
                viol.append(("C10.no_run_id_after_restart", f"no Run Id within 4 ticks after the Restart stopped at tick {s}"))
            elif new_id == run1:
                viol.append(("C10.run_id_reused_after_restart", f"Run Id after Restart equals the old one {run1}"))
            if first_started is None:
                viol.append(("C10.first_line_not_started_after_restart",
                             f"first method line (L0) not started within 4 ticks after the Restart stopped at tick {s}; "
                             f"state={rig.state} errors={rig.errors[-1:]}"))
        else:
            # a Stop stays stopped: nothing may execute afterwards
            n_log = len(rig.cmdlog)
            rig.tick(3)
            sim3 = _reported_simulated(rig, sl.builder, res)
            if sim3 and not sim:
                viol.append(("C10.simulation_reappears_after_stop", f"3 ticks after the Stop completed at tick {s} tags are "
                             f"reported as simulated: {sim3}"))
            late = [e for e in rig.cmdlog[n_log:] if e[1] == "exec"]
            if late:
                viol.append((mech_for([e[3] for e in late], "C10.command_executes_after_stop"), f"UOD command {late[0][2]} ({late[0][3][:8]}) executes at tick {late[0][0]} after the Stop "
                             f"completed at tick {s}"))
        key = (shape_hash(case["text"]), kind, at) + ((repr(ops),) if ops else ()) + ((fail_kind,) if fail_kind else ())
        res.case(key if nontrivial else None,
                 sample={"method": case["text"], "kind": kind, "at": at, "stopped_tick": s, "live_at_request": pre["live"],
                         **({"ops": ops} if ops else {})})
    finally:
        rig.close()
    seen = set()
    for mech, msg in viol:
        if (mech, msg) in seen:
            continue
        seen.add((mech, msg))
        res.violation(mech, msg, case)


def _pre_state(rig, user_iids=(), forced_iids=()):
    alive: list[str] = []
    for ev in rig.cmdlog:
        if ev[1] == "init":
            alive.append(ev[3])
        elif ev[1] == "fin" and ev[3] in alive:
            alive.remove(ev[3])
    return {"live": len(alive), "simulated": any(t.simulated for t in rig.e.tags), "error": bool(rig.errors),
            "paused": rig.e._runstate_paused, "holding": rig.e._runstate_holding,
            "live_user": sum(1 for i in alive if i in user_iids), "live_forced": sum(1 for i in alive if i in forced_iids)}


def _never_started_failed_instances(records: list[tuple]) -> set:
    """instance ids of UOD command records whose states read created, failed and which never started"""
    out = set()
    for name, cls, node_id, insts in records:
        if cls != "UodCommandNode":
            continue
        for iid, names in insts:
            if names[:2] == ["created", "failed"] and "started" not in names and "uodcommandset" not in names:
                out.add(iid)
    return out


def _reported_simulated(rig, builder, res: Result) -> dict:
    """{tag name: [who reports it as simulated]} over the engine tag flags, the read-only tag values and (if a builder
    is given) the tag snapshot message for the aggregator."""
    out: dict[str, list] = {}
    res.count("simulated_reports_checked")
    for t in rig.e.tags:
        if t.simulated:
            out.setdefault(str(t.name), []).append("tag.simulated")
        if t.as_readonly().simulated:
            out.setdefault(str(t.name), []).append("as_readonly")
    if builder is not None:
        msg = builder.create_tag_updates_snapshot_msg()
        res.count("snapshot_messages_checked")
        res.count("snapshot_message_tags_checked", len(msg.tags))
        for tv in msg.tags:
            if tv.simulated:
                out.setdefault(str(tv.name), []).append("tag snapshot message")
    return dict(sorted(out.items()))


def _simulate_line_targets(text: str) -> dict:
    """{method line id: tag name} of the Simulate lines (ids as assigned by engine_rig.to_method)"""
    out = {}
    for i, ln in enumerate(text.split("\n")):
        b = ln.strip()
        if b.startswith("Simulate:") and "=" in b:
            out[f"L{i}"] = b[len("Simulate:"):].split("=", 1)[0].strip()
    return out


def _apply_op(rig, rq, op, forced: set, res: Result):
    """One operator action between two ticks (the real entry points: execute_control_command_from_user / handle_forceMsg)."""
    if op[1] == "user":
        res.count("operator_commands_accepted" if rig.user(op[2]) else "operator_commands_rejected")
        return
    # force the n-th running (started, offered as forcible) UOD command item of the current run log
    try:
        items = [i for i in rig.e.tracking.get_runlog().items
                 if str(i.state) == "started" and i.forcible and i.name.split(":")[0] in UOD_NAMES
                 and i.id in rig_instance_ids(rig)]
    except Exception:
        items = []
    if not items:
        res.count("force_script_without_running_uod_item")
        return
    it = items[op[2] % len(items)]
    if rq.force(it.id):
        forced.add(it.id)
        res.count("force_requests_accepted")
    else:
        res.count("force_requests_rejected")


def rig_instance_ids(rig) -> set:
    return {c.instance_id for c in rig.uod.command_instances.values()}


def _conflicts(a: str, b: str) -> bool:
    return a == b or (a in ("Long", "Long2") and b in ("Long", "Long2"))


def _raced_with_stop(reqs, kind) -> set:
    """instance ids of UOD requests that were queued *before* a Stop/Restart request dequeued by the same
    command-manager tick: the engine puts newer requests first, so the Stop's cancel phase runs before the command
    is created; the command then starts and is never cancelled."""
    out = set()
    for i, q in enumerate(reqs):
        if q[1] not in ("Stop", "Restart"):
            continue
        for o in reqs[:i]:
            if o[0] == q[0] and o[1] in UOD_NAMES:
                out.add(o[2])
    return out


def run_shard(spec):
    from opv.rigs.cmd_rig import insert_line
    res = Result()
    rnd = random.Random(spec["seed"])
    for mi in range(spec["n"]):
        m = gen_method(rnd, spec.get("max_depth", 3))
        live_ticks: list = []
        T = reference_length(m, live_ticks)
        # operator scripts draw from their own stream: the method / Stop sweep of a shard does not depend on them
        rnd_ops = random.Random(spec["seed"] * 7919 + mi * 31 + 17)
        for ops, stop_ticks in operator_scripts(rnd_ops, m, T, live_ticks):
            for t in stop_ticks:
                for kind in ("Stop", "Restart"):
                    check_case({**m, "kind": kind, "at": t, "ops": ops}, res)
        for t in range(1, T + 1):
            for kind in ("Stop", "Restart"):
                check_case({**m, "kind": kind, "at": t}, res)
        # failing-line stratum (own stream as well)
        rnd_f = random.Random(spec["seed"] * 104729 + mi * 37 + 5)
        for fc in failing_variants(rnd_f, m, spec.get("first_serial", 0) + mi):
            E = error_tick(fc)
            if E is None:
                res.count("failing_line_not_reached_within_40_ticks")
                continue
            res.count("failing_line_variants_reaching_error_pause")
            for t in range(max(1, E - 1), E + 7):
                for kind in ("Stop", "Restart"):
                    check_case({**fc, "kind": kind, "at": t}, res)
            for _ in range(2):
                u = E + rnd_f.randint(0, 4)
                t = u + rnd_f.randint(0, 3)
                for kind in ("Stop", "Restart"):
                    check_case({**fc, "kind": kind, "at": t, "ops": [[u, "ctl", "Unpause"]]}, res)
        n_lines = len([ln for ln in m["text"].split("\n") if ln.strip() and not ln.strip().startswith("#")])
        for pos in range(1, n_lines):
            for kind in ("Stop", "Restart"):
                t2 = insert_line(m["text"], pos, kind)
                if t2 is not None:
                    check_case({**m, "text": t2, "kind": kind, "at": None, "pos": pos}, res)
    return res


def replay(case):
    res = Result()
    check_case(case, res)
    return res
