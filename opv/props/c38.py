"""C38 - Distinct engines never share an engine id.

Injectivity of the real `Aggregator.create_engine_id` over enumerated and generated (computer name, UOD name) pairs,
take-over attempts against a connected engine through the real registration handler, and connection histories
(register / connect / disconnect / reconnect without registering / register again) in which every registration that
resolves to an id with a live connection must be refused whatever else the aggregator knows about that id.
See DESIGN.md C38."""
from __future__ import annotations

import itertools
import random
import zlib

from opv.core import Result

ID = "C38"
LEVEL = "exploration"
TECHNIQUE = ("runtime monitoring: injectivity table over observed engine ids + refusal oracle on registrations that "
             "hit the id of a connected engine")
RULE = ("(1) exhaustive: all 400 x 400 (computer, uod) pairs of strings of length 0-3 over {a, B, _, %, /, space, e-acute}, "
        "ids from the real Aggregator.create_engine_id, any two different pairs under one id is a refutation; "
        "(2) seeded adversarial groups of longer names (2-6 pairs each): every split of a joined name with several "
        "underscores, percent-escape look-alikes (%5F vs _, %20 vs space, %25 vs %), NFC vs NFD accents, case, "
        "leading/trailing blanks; ids must be pairwise different inside a group; (3) take-over scenarios through "
        "handle_RegisterEngineMsg on a real Aggregator/AggregatorDispatcher: P1 registers and connects (mock rpc "
        "channel), then P2 registers, P2 in {same pair, a different pair with the same id (if one exists), a pair "
        "with another id}; while P1 is connected a registration that resolves to P1's id must be answered "
        "success=False and must leave P1's engine data untouched; (4) connection histories for one engine id X over "
        "the events {register by the owner pair, register by another pair (another split with the same id if one "
        "exists, else another id), open a websocket that reports X (no registration needed: the dispatcher attaches a "
        "channel to whatever id get_engine_id_async returns), close the live websocket}: ALL histories of length <= 6 "
        "(quick) / <= 7 (thorough) for two name configurations, plus ALL histories of the same lengths over that alphabet "
        "extended by 'the websocket that was turned away as a second connection for X closes' in which that event can "
        "have an effect (connect .. connect .. close-rejected is a subsequence), plus seeded histories of length 6-14 "
        "with generated names (45 % start with register, connect, ..., disconnect, connect; 30 % are built around "
        "connected engine, second websocket with the same id, its close, registrations after it) and two more events "
        "(close a websocket that was turned away as a second connection, register a pair "
        "with an unrelated id); websocket closes run the endpoint's on_disconnect handler list the way "
        "WebsocketRPCEndpoint.main_loop does (an exception of a handler is logged by the endpoint and swallowed: counted, "
        "the history goes on); the harness keeps its own model 'a channel for X was accepted and not closed since', which "
        "alone decides what 'connected' means; "
        "every registration resolving to X while the model says live must be answered success=False and must leave "
        "engine data stored under X untouched - in both reachable sub-states (engine data present / absent, the "
        "latter after drop + reconnect without a new registration or after a connect that was never preceded by a "
        "registration); after every event with a live websocket an rpc addressed to X through the public "
        "AggregatorDispatcher.rpc_call must arrive on that websocket. "
        "distinct = the pair / the group / the scenario / the history; "
        "non-trivial = a name contains a separator or URL-special character, resp. the scenario or history contains "
        "a registration that hits a connected id")
ASSUMPTIONS = [
    "'engine id' is what create_engine_id returns and what RegisterEngineReplyMsg.engine_id carries (checked equal "
    "in every scenario)",
    "'currently connected' = the engine's rpc channel is open (the rig opened it and has not closed it); a "
    "registration between P1's register POST and its websocket connect is not judged (counted)",
    "the empty string is a legal name for the purpose of the enumeration (length 0-3)",
    "trusted base: the mocked rpc channel, the scratch SQLite database",
    "connection histories: 'live' is decided by the harness model alone (channel opened by the rig, not closed by the "
    "dispatcher, not closed by the rig since); the dispatcher's own channel map is not consulted (a registration while "
    "the model says live and the map has no channel for the id is counted and judged like any other); how the "
    "connection came about (with or without a registration in this aggregator life-time) does not matter to the "
    "refusal rule; registrations while no connection is live are counted, not judged",
    "'the id of an engine that is currently connected' is read as: for as long as the engine's websocket is open the id "
    "denotes that engine - an rpc the aggregator addresses to the id arrives on that websocket (own mechanism key "
    "C38.connected_engine_not_reachable_under_its_id); an id that was silently detached from its connected engine is "
    "free for the next registration, which is the take-over the statement excludes",
    "an exception raised by on_client_disconnect is handled as the server does (WebsocketRPCEndpoint.main_loop logs "
    "'Failed to serve' and carries on): counted (hist_entry_point_exceptions_swallowed), noted in the evidence, not a "
    "refutation of this property by itself; an exception raised by the registration handler is an error reply (not "
    "accepted)",
]
REQUIRED = {"ids_computed": 150000, "takeover_attempts_on_connected_id": 300, "group_pairs_checked": 20000,
            "scenario_id_matches_reply": 500,
            "histories_run": 5000, "hist_reg_live_with_engine_data": 2000, "hist_reg_live_without_engine_data": 2000,
            "hist_reg_live_without_engine_data_after_reconnect": 600, "hist_reg_live_never_registered": 300,
            "hist_reg_live_by_other_pair": 500, "hist_reconnects_without_register": 800,
            "hist_reg_not_live_with_engine_data": 500, "hist_reg_not_live_without_engine_data": 500,
            "hist_random_histories": 300,
            # a second websocket presents the id of a connected engine, is turned away, closes; registrations after it
            "hist_second_connection_rejected": 3000, "hist_rejected_channel_closed_while_live": 1000,
            "hist_reg_live_after_rejected_duplicate_closed": 400,
            "hist_reg_live_after_rejected_duplicate_closed_with_engine_data": 100,
            "hist_reg_live_after_rejected_duplicate_closed_without_engine_data": 200,
            "hist_reg_live_while_rejected_duplicate_still_open": 1000,
            "hist_reachability_probes_delivered": 15000,
            "hist_reachability_probes_delivered_after_rejected_duplicate_closed": 2000}
EXHAUSTIVE_ALL = False

K_JOIN = "C38.underscore_join_collides"
ALPHA = ["a", "B", "_", "%", "/", " ", "\u00e9"]
N_EX = 4


def plan(tier, seed):
    shards = 16 if tier == "quick" else 32
    groups = 20000 if tier == "quick" else 300000
    scen = 3000 if tier == "quick" else 30000
    hist_len = 6 if tier == "quick" else 7
    hist_rand = 1200 if tier == "quick" else 30000
    out = []
    for i in range(shards):
        if i < N_EX:
            out.append({"seed": seed * 1000003 + i, "kind": "exhaustive", "part": i, "of": N_EX})
        else:
            k = shards - N_EX
            out.append({"seed": seed * 1000003 + i, "kind": "random", "groups": groups // k, "scenarios": scen // k,
                        "hist_part": i - N_EX, "hist_of": k, "hist_len": hist_len, "hist_random": hist_rand // k})
    return out


def strings_upto(n):
    out = [""]
    for ln in range(1, n + 1):
        out += ["".join(p) for p in itertools.product(ALPHA, repeat=ln)]
    return out


def classify(p1, p2):
    if p1[0] + "_" + p1[1] == p2[0] + "_" + p2[1]:
        # causal shape of the known defect: the two names are joined with a bare '_' that may also occur in a name,
        # so two different splits of one joined string are indistinguishable
        return K_JOIN
    return "C38.id_encoding_not_injective"


def special(s):
    return any(ch in s for ch in "_%/ ") or any(ord(ch) > 127 for ch in s)


def run_exhaustive(spec, res: Result):
    from opv.rigs.frontend_rig import FrontendRig
    rig = FrontendRig()
    try:
        names = strings_upto(3)
        assert len(names) == 400
        table: dict[str, tuple] = {}
        for c in names:
            for u in names:
                eid = rig.agg.create_engine_id(rig.register_msg(c, u))
                res.count("ids_computed_all_parts")
                if zlib.crc32(str(eid).encode("utf-8")) % spec["of"] != spec["part"]:
                    continue
                res.count("ids_computed")
                first = table.setdefault(eid, (c, u))
                res.case((c, u) if special(c) or special(u) else None,
                         sample={"computer": c, "uod": u, "engine_id": eid})
                if first != (c, u):
                    res.count("colliding_pairs")
                    res.violation(classify(first, (c, u)),
                                  f"(computer={first[0]!r}, uod={first[1]!r}) and (computer={c!r}, uod={u!r}) both get "
                                  f"engine id {eid!r}", {"kind": "pairs", "pairs": [list(first), [c, u]]})
        res.counters.pop("ids_computed_all_parts", None)
        if spec["part"] == 0:
            res.exhaustive_parts.append("all 160 000 (computer, uod) pairs of strings of length 0-3 over "
                                        "{a,B,_,%,/,space,e-acute}")
    finally:
        rig.close()


WIDE = ["a", "b", "B", "Z", "0", "_", "_", "%", "/", " ", "\u00e9", "e\u0301", "-", ".", "+", "&", "=", "?", "#", "\\", "~",
        "%5F", "%5f", "%20", "%25", "%2F", "\u00f8", "\u4e2d", "\t"]


def rand_name(rnd, lo=0, hi=8):
    return "".join(rnd.choice(WIDE) for _ in range(rnd.randint(lo, hi)))


def gen_group(rnd: random.Random):
    kind = rnd.choice(["splits", "escape", "unicode", "case", "blank", "random"])
    if kind == "splits":
        parts = [rand_name(rnd, 0, 3).replace("_", "") for _ in range(rnd.randint(3, 5))]
        joined = "_".join(parts)
        idxs = [i for i, ch in enumerate(joined) if ch == "_"]
        pairs = [(joined[:i], joined[i + 1:]) for i in idxs]
    elif kind == "escape":
        c, u = rand_name(rnd, 1, 5), rand_name(rnd, 1, 5)
        pairs = [(c, u)]
        for a, b in (("_", "%5F"), (" ", "%20"), ("%", "%25"), ("/", "%2F"), (" ", "+")):
            pairs.append((c.replace(a, b), u.replace(a, b)))
            pairs.append((c.replace(b, a), u.replace(b, a)))
        pairs.append((c + "%5F" + u, ""))
        if rnd.random() < 0.5:
            pairs.append(("", c + "_" + u))
    elif kind == "unicode":
        import unicodedata
        c, u = rand_name(rnd, 1, 5) + "\u00e9", rand_name(rnd, 1, 5)
        pairs = [(c, u), (unicodedata.normalize("NFD", c), u), (unicodedata.normalize("NFC", c), u),
                 (c.replace("\u00e9", "e"), u), (c.replace("\u00e9", "%C3%A9"), u)]
    elif kind == "case":
        c, u = rand_name(rnd, 1, 6), rand_name(rnd, 1, 6)
        pairs = [(c, u), (c.lower(), u.lower()), (c.upper(), u.upper()), (u, c)]
    elif kind == "blank":
        c, u = rand_name(rnd, 1, 6), rand_name(rnd, 1, 6)
        pairs = [(c, u), (c + " ", u), (" " + c, u), (c, u + " "), (c.strip(), u.strip()), (c, " " + u)]
    else:
        pairs = [(rand_name(rnd), rand_name(rnd)) for _ in range(rnd.randint(2, 6))]
    out = []
    for p in pairs:
        if p is not None and p not in out:
            out.append(p)
    return kind, out[:8]


def check_group(rig, group, res: Result):
    kind, pairs = group
    table: dict[str, tuple] = {}
    hit = False
    for p in pairs:
        eid = rig.agg.create_engine_id(rig.register_msg(*p))
        res.count("group_pairs_checked")
        first = table.setdefault(eid, p)
        if first != p:
            hit = True
            res.violation(classify(first, p), f"[{kind}] (computer={first[0]!r}, uod={first[1]!r}) and (computer={p[0]!r}, "
                          f"uod={p[1]!r}) both get engine id {eid!r}", {"kind": "pairs", "pairs": [list(first), list(p)]})
    if hit:
        res.count("groups_with_collision")
    res.case(("group", tuple(pairs)) if len(pairs) >= 2 else None, sample={"group": kind, "pairs": [list(p) for p in pairs]})


def gen_scenario(rnd: random.Random):
    parts = [rand_name(rnd, 1, 3).replace("_", "") or "x" for _ in range(rnd.randint(2, 4))]
    joined = "_".join(parts)
    idxs = [i for i, ch in enumerate(joined) if ch == "_"]
    i1 = rnd.choice(idxs)
    p1 = (joined[:i1], joined[i1 + 1:])
    mode = rnd.choice(["same", "other_split", "other_split", "different"])
    if mode == "same":
        p2 = p1
    elif mode == "other_split" and len(idxs) >= 2:
        i2 = rnd.choice([i for i in idxs if i != i1])
        p2 = (joined[:i2], joined[i2 + 1:])
    else:
        mode = "different"
        p2 = (p1[0] + rnd.choice(["2", "x", "_", " "]), p1[1])
    return {"p1": list(p1), "p2": list(p2), "mode": mode, "retry_after_disconnect": rnd.random() < 0.3}


async def check_scenario(rig, sc, res: Result):
    p1, p2 = tuple(sc["p1"]), tuple(sc["p2"])
    id1 = rig.agg.create_engine_id(rig.register_msg(*p1))
    id2 = rig.agg.create_engine_id(rig.register_msg(*p2))
    r1 = await rig.register(*p1)
    if not r1.success:
        res.count("scenario_first_registration_refused")
        res.case(None)
        return
    if r1.engine_id == id1:
        res.count("scenario_id_matches_reply")
    else:
        res.violation(None, f"reply engine_id {r1.engine_id!r} differs from create_engine_id {id1!r}", sc)
    await rig.connect(id1)
    connected = rig.dispatcher.has_connected_engine_id(id1)
    ed1 = rig.agg.get_registered_engine_data(id1)
    r2 = await rig.register(*p2)
    hits = (r2.engine_id == id1) if r2.engine_id is not None else (id2 == id1)
    if connected and hits:
        res.count("takeover_attempts_on_connected_id")
        if p1 != p2:
            res.count("takeover_attempts_by_a_different_pair")
        if r2.success:
            res.violation("C38.takeover_of_connected_engine_accepted",
                          f"engine {p1} is connected under id {id1!r}; registration of {p2} resolved to the same id and "
                          f"was answered success=True", sc)
        ed_now = rig.agg.get_registered_engine_data(id1)
        if ed_now is not ed1 or ed_now is None or (ed_now.computer_name, ed_now.uod_name) != p1:
            res.violation("C38.engine_data_of_connected_engine_replaced",
                          f"after the registration attempt of {p2} the engine data under {id1!r} is "
                          f"{None if ed_now is None else (ed_now.computer_name, ed_now.uod_name)}, expected {p1}", sc)
    elif p1 != p2 and id1 != id2:
        res.count("scenario_distinct_ids")
        if not r2.success:
            res.count("scenario_distinct_pair_refused")     # not judged
    if p1 != p2 and id1 == id2:
        res.count("scenario_pairs_share_id")
        res.violation(classify(p1, p2), f"(computer={p1[0]!r}, uod={p1[1]!r}) and (computer={p2[0]!r}, uod={p2[1]!r}) both "
                      f"get engine id {id1!r}", {"kind": "pairs", "pairs": [list(p1), list(p2)]})
    # clean up: close channels so that the next scenario starts from an empty aggregator
    for eid in list(rig.dispatcher._engine_id_channel_map.keys()):
        await rig.disconnect_engine(eid)
    if sc.get("retry_after_disconnect") and hits:
        r3 = await rig.register(*p2)
        res.count("registrations_after_disconnect_accepted" if r3.success else "registrations_after_disconnect_refused")
    for eid in list(rig.agg._engine_data_map.keys()):
        # registered but never connected engines (P2 with another id): drop them the way a disconnect would
        with rig.database.create_scope():
            rig.agg.from_engine.engine_disconnected(eid)
    await rig.settle(2)
    res.case(("scenario", p1, p2) if connected and hits else None, sample=sc)


# ---------------------------------------------------------------------------------------------------------------------
# connection histories

H_CORE = ("reg_owner", "reg_other", "connect", "disconnect")
H_DUP = H_CORE + ("disconnect_rejected",)
H_WIDE = H_CORE + ("connect", "reg_owner", "disconnect_rejected", "reg_unrelated")
H_CONFIGS = (
    {"owner": ["a_b", "c"], "other": ["a", "b_c"]},                                # another split with the same id
    {"owner": ["lab pc/01", "Pump&Filter?v=2"], "other": ["lab pc/02", "Pump&Filter?v=2"]},   # another id
)
K_TAKEOVER = "C38.takeover_of_connected_engine_accepted"
K_TAKEOVER_NO_DATA = "C38.takeover_accepted_when_connected_id_has_no_engine_data"
K_UNREACHABLE = "C38.connected_engine_not_reachable_under_its_id"


def _closes_a_rejected_duplicate(evs) -> bool:
    """connect ... connect ... disconnect_rejected as a subsequence: the only way the extra event can do anything."""
    st = 0
    for e in evs:
        if st < 2 and e == "connect":
            st += 1
        elif st == 2 and e == "disconnect_rejected":
            return True
    return False


def enum_histories(max_len: int):
    for ci in range(len(H_CONFIGS)):
        for ln in range(1, max_len + 1):
            for evs in itertools.product(H_CORE, repeat=ln):
                yield {"kind": "history", "owner": H_CONFIGS[ci]["owner"], "other": H_CONFIGS[ci]["other"],
                       "events": list(evs)}
    # second alphabet: additionally 'the websocket that was turned away as a second connection for the id closes';
    # only the histories in which that event can have an effect (the others are covered above)
    for ci in range(len(H_CONFIGS)):
        for ln in range(3, max_len + 1):
            for evs in itertools.product(H_DUP, repeat=ln):
                if _closes_a_rejected_duplicate(evs):
                    yield {"kind": "history", "owner": H_CONFIGS[ci]["owner"], "other": H_CONFIGS[ci]["other"],
                           "events": list(evs)}


def gen_history(rnd: random.Random):
    sc = gen_scenario(rnd)
    evs = []
    r = rnd.random()
    if r < 0.45:
        # the engine registers and connects, loses its websocket and re-opens it with the id it already has
        evs = ["reg_owner", "connect"] + [rnd.choice(H_WIDE) for _ in range(rnd.randint(0, 2))] + ["disconnect", "connect"]
    elif r < 0.75:
        # an engine is connected (with or without a registration); a second websocket presents the same id, is turned
        # away and closes; registrations follow while the first websocket is still open
        evs = rnd.choice([["reg_owner", "connect"], ["connect"], ["reg_owner", "connect", "disconnect", "connect"]]) + \
            [rnd.choice(["reg_owner", "reg_other", "connect"]) for _ in range(rnd.randint(0, 2))] + ["connect"] + \
            [rnd.choice(["reg_owner", "reg_other", "connect", "reg_unrelated"]) for _ in range(rnd.randint(0, 2))] + \
            ["disconnect_rejected"] + [rnd.choice(["reg_owner", "reg_other", "reg_unrelated", "disconnect_rejected"])
                                       for _ in range(rnd.randint(1, 3))]
    evs += [rnd.choice(H_WIDE) for _ in range(rnd.randint(6, 14) - len(evs))]
    return {"kind": "history", "owner": sc["p1"], "other": sc["p2"], "events": evs, "random": True}


_PROBE_REPLY = []


async def probe_reachable(rig, X, live, opened) -> str:
    """One aggregator -> engine rpc addressed to id X (the public `AggregatorDispatcher.rpc_call`): 'delivered' iff the
    call arrives on the websocket `live`."""
    import asyncio
    import openpectus.protocol.aggregator_messages as AM
    from opv.rigs.frontend_rig import rpc_reply
    if not _PROBE_REPLY:
        _PROBE_REPLY.append(rpc_reply(AM.SuccessMessage()))
    before = [(c, len(c.script.calls)) for c in opened]
    task = asyncio.ensure_future(rig.dispatcher.rpc_call(X, AM.SuccessMessage()))
    got = None
    for _ in range(6):
        await asyncio.sleep(0)
        got = next((c for c, n in before if len(c.script.calls) > n), None)
        if got is not None or task.done():
            break
    if got is not None:
        for call in got.script.pending():
            call["future"].set_result(_PROBE_REPLY[0])
    try:
        await task
    except Exception as ex:  # noqa
        return f"rpc_call raised {type(ex).__name__}"
    if got is live:
        return "delivered"
    return "delivered to another websocket" if got is not None else "not delivered (no channel under the id)"


async def check_history(rig, h, res: Result):
    from opv.rigs.frontend_rig import ws_open, ws_closed
    owner, other = tuple(h["owner"]), tuple(h["other"])
    unrelated = (owner[0] + "#unrelated", owner[1])
    X = rig.agg.create_engine_id(rig.register_msg(*owner))
    pairs = {"reg_owner": owner, "reg_other": other, "reg_unrelated": unrelated}
    live = None            # harness model: the channel accepted for X and not closed since
    live_origin = None     # "registered" / "reconnect" / "never_registered"
    rejected = []          # channels the dispatcher turned away (second connection for X)
    opened = []            # every websocket of this history
    rejected_closed_while_live = 0     # turned-away websockets that closed during the current live period
    unreachable_reported = False
    x_registered_ever = False
    hit = False
    res.count("histories_run")
    if h.get("random"):
        res.count("hist_random_histories")

    async def closed(ch, what):
        # the server's websocket endpoint logs an exception of on_client_disconnect and goes on: so does the history
        ex = await ws_closed(rig, ch)
        if ex is not None:
            res.count("hist_entry_point_exceptions_swallowed")
            res.count("hist_on_client_disconnect_raised")
            note = f"on_client_disconnect raised {type(ex).__name__} ({what}); swallowed as the websocket endpoint does"
            if note not in res.notes and len(res.notes) < 5:
                res.notes.append(note)

    for n, ev in enumerate(h["events"]):
        if live is not None and live.close_calls > 0:
            # the dispatcher itself closed the accepted websocket: the connection is over
            res.count("hist_live_channel_closed_by_dispatcher")
            await closed(live, "live websocket closed by the dispatcher")
            live, live_origin, rejected_closed_while_live = None, None, 0
        if ev == "connect":
            ch = await ws_open(rig, X)
            opened.append(ch)
            was_closed = ch.close_calls > 0
            if live is None:
                if was_closed:
                    res.count("hist_connect_turned_away_while_not_live")          # not judged
                    rejected.append(ch)
                else:
                    live = ch
                    rejected_closed_while_live = 0
                    unreachable_reported = False
                    if rig.agg.get_registered_engine_data(X) is not None:
                        live_origin = "registered"
                    elif x_registered_ever:
                        live_origin = "reconnect"
                        res.count("hist_reconnects_without_register")
                    else:
                        live_origin = "never_registered"
                        res.count("hist_connects_never_registered")
            else:
                res.count("hist_second_connection_while_live")
                if was_closed:
                    rejected.append(ch)
                    res.count("hist_second_connection_rejected")
                else:
                    res.count("hist_second_connection_not_closed")                # not judged
        elif ev == "disconnect":
            if live is not None:
                await closed(live, "close of the accepted websocket")
                live = None
                live_origin = None
                rejected_closed_while_live = 0
                res.count("hist_disconnects")
        elif ev == "disconnect_rejected":
            if rejected:
                await closed(rejected.pop(), "close of a websocket that was turned away")
                res.count("hist_rejected_channel_closed")
                if live is not None:
                    rejected_closed_while_live += 1
                    res.count("hist_rejected_channel_closed_while_live")
        else:
            pair = pairs[ev]
            pid = rig.agg.create_engine_id(rig.register_msg(*pair))
            ed_before = rig.agg.get_registered_engine_data(pid)
            ident_before = None if ed_before is None else (ed_before.computer_name, ed_before.uod_name, ed_before.location)
            # 'connected' is decided by the harness model alone: a websocket that reported the id was accepted (not
            # closed by the dispatcher) and has not closed since - whatever the dispatcher's own maps say
            model_live = pid == X and live is not None
            map_has = pid in rig.dispatcher._engine_id_channel_map
            try:
                r = await rig.register(*pair)
            except Exception as ex:  # noqa - the REST route would answer 500: the registration is not accepted
                r = None
                res.count("hist_entry_point_exceptions_swallowed")
                res.count("hist_register_raised")
                note = f"handle_RegisterEngineMsg raised {type(ex).__name__}; treated as an error reply"
                if note not in res.notes and len(res.notes) < 5:
                    res.notes.append(note)
            accepted = r is not None and r.success
            if r is not None and r.engine_id is not None and r.engine_id != pid:
                res.violation(None, f"reply engine_id {r.engine_id!r} differs from create_engine_id {pid!r}", h)
            if model_live:
                hit = True
                if not map_has:
                    res.count("hist_reg_live_but_dispatcher_has_no_channel_for_id")   # judged all the same
                state = "with_engine_data" if ed_before is not None else "without_engine_data"
                res.count("hist_reg_live_" + state)
                if ed_before is None:
                    res.count("hist_reg_live_without_engine_data_after_reconnect" if live_origin == "reconnect" else
                              "hist_reg_live_never_registered" if live_origin == "never_registered" else
                              "hist_reg_live_without_engine_data_other")
                if pair != owner:
                    res.count("hist_reg_live_by_other_pair")
                if rejected_closed_while_live:
                    res.count("hist_reg_live_after_rejected_duplicate_closed")
                    res.count("hist_reg_live_after_rejected_duplicate_closed_" + state)
                elif rejected:
                    res.count("hist_reg_live_while_rejected_duplicate_still_open")
                if accepted:
                    res.violation(K_TAKEOVER if ed_before is not None else K_TAKEOVER_NO_DATA,
                                  f"event {n} ({ev}): a websocket reporting engine id {X!r} is open (opened as "
                                  f"{live_origin}; engine data for the id {'present' if ed_before is not None else 'absent'}"
                                  f"; {rejected_closed_while_live} turned-away second websocket(s) for the id closed "
                                  f"meanwhile); registration of {pair} resolved to that id and was answered "
                                  f"success=True; history {h['events'][:n + 1]}", h)
                ed_now = rig.agg.get_registered_engine_data(pid)
                if ed_before is not None:
                    ident_now = None if ed_now is None else (ed_now.computer_name, ed_now.uod_name, ed_now.location)
                    if ed_now is not ed_before or ident_now != ident_before:
                        res.violation("C38.engine_data_of_connected_engine_replaced",
                                      f"event {n} ({ev}): engine data under the connected id {X!r} changed from "
                                      f"{ident_before} to {ident_now}; history {h['events'][:n + 1]}", h)
                elif ed_now is not None and not accepted:
                    res.count("hist_engine_data_created_by_refused_registration")  # not judged
            else:
                if map_has:
                    res.count("hist_model_and_channel_map_disagree")              # not judged
                res.count("hist_reg_not_live_" + ("with_engine_data" if ed_before is not None else "without_engine_data"))
                res.count("hist_reg_not_live_accepted" if accepted else "hist_reg_not_live_refused")   # not judged
            if pid == X and accepted:
                x_registered_ever = True
        # the id of a connected engine keeps denoting that engine: an rpc addressed to X arrives on its websocket
        if live is not None and live.close_calls == 0 and not unreachable_reported:
            how = await probe_reachable(rig, X, live, opened)
            if how == "delivered":
                res.count("hist_reachability_probes_delivered")
                if rejected_closed_while_live:
                    res.count("hist_reachability_probes_delivered_after_rejected_duplicate_closed")
            else:
                hit = True
                unreachable_reported = True
                res.violation(K_UNREACHABLE,
                              f"event {n} ({ev}): the websocket accepted for engine id {X!r} (opened as {live_origin}) is "
                              f"still open, but an rpc addressed to that id is {how}; history {h['events'][:n + 1]}", h)
    # clean up: close every websocket, drop engine data the way a disconnect would
    if live is not None:
        await closed(live, "clean-up")
    for ch in rejected:
        await closed(ch, "clean-up")
    for eid in list(rig.dispatcher._engine_id_channel_map.keys()):
        await closed(rig.dispatcher._engine_id_channel_map[eid], "clean-up")
        rig.dispatcher._engine_id_channel_map.pop(eid, None)
    for eid in list(rig.agg._engine_data_map.keys()):
        with rig.database.create_scope():
            rig.agg.from_engine.engine_disconnected(eid)
    rig.scripts.clear()
    rig.channels.clear()
    await rig.settle(2)
    res.case(("history", owner, other, tuple(h["events"])) if hit else None,
             sample={k: h[k] for k in ("owner", "other", "events")})


def run_random(spec, res: Result):
    from opv.rigs.frontend_rig import FrontendRig, run
    rig = FrontendRig()
    rnd = random.Random(spec["seed"])

    async def main():
        for _ in range(spec["groups"]):
            check_group(rig, gen_group(rnd), res)
        for _ in range(spec["scenarios"]):
            await check_scenario(rig, gen_scenario(rnd), res)
        if spec.get("hist_of"):
            for i, h in enumerate(enum_histories(spec["hist_len"])):
                if i % spec["hist_of"] == spec["hist_part"]:
                    await check_history(rig, h, res)
            if spec["hist_part"] == 0:
                res.exhaustive_parts.append(
                    f"all connection histories of length 1-{spec['hist_len']} over {{register by the owner pair, register "
                    f"by another pair, open a websocket reporting the id, close the live websocket}} for "
                    f"{len(H_CONFIGS)} name configurations; all histories of length 3-{spec['hist_len']} over that alphabet "
                    f"plus 'a websocket that was turned away as a second connection closes' that contain connect .. "
                    f"connect .. close-rejected as a subsequence")
            for _ in range(spec.get("hist_random", 0)):
                await check_history(rig, gen_history(rnd), res)
        await rig.drain_tasks()
    try:
        run(main)
    finally:
        rig.close()


def run_shard(spec):
    res = Result()
    if spec["kind"] == "exhaustive":
        run_exhaustive(spec, res)
    else:
        run_random(spec, res)
    return res


def replay(case):
    from opv.rigs.frontend_rig import FrontendRig, run
    res = Result()
    rig = FrontendRig()

    async def main():
        if case.get("kind") == "pairs":
            check_group(rig, ("replay", [tuple(p) for p in case["pairs"]]), res)
        elif case.get("kind") == "history":
            await check_history(rig, case, res)
        else:
            await check_scenario(rig, case, res)
        await rig.drain_tasks()
    try:
        run(main)
    finally:
        rig.close()
    return res
