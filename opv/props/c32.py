"""C32 - Role-based access control covers every unit and run endpoint.

HTTP rig (DESIGN.md R8): the real `AggregatorServer(...).fastapi` under `fastapi.testclient.TestClient`; the caller's
roles are injected through `app.dependency_overrides` for `auth.user_roles / user_id / user_name`; units and runs are
seeded *through the real engine-facing message path* (REST registration, `AggregatorDispatcher.dispatch_message` for
UodInfo/Method/RunStarted/TagsUpdated/RunLog/ErrorLog/RunStopped) with unique sentinel strings; the engine's rpc
channel is a mock so that "a command reached the engine" is observable.

One shard = one (required-role set R, user-role set U) pair; inside the shard every route discovered from `app.routes`
is enumerated against two worlds (unit with an active run / unit without one), so the explored space
routes x R x U x world is enumerated completely. In addition every shard runs the two-session scenarios: for
every earlier required-role set R0 of the universe an engine lives through two sessions (register, uod-info with R0,
disconnect; register again, uod-info with R, then disconnect or aggregator shutdown) and the unit listing (every
parameter-less GET route that lists the unit for an authorised user) plus every GET route with a unit id is judged
for the user U against the roles of the LATEST session, at four points (online 1, offline 1, online 2, offline 2).

Engine life cycles (`_life_cycles`, LIFE_HISTORIES): in every shard engines live through histories built from the
engine-facing events open (register, websocket, UodInfoMsg, steady-state round - the order engine_runner uses),
run started, run stopped, disconnect and aggregator restart: a run in progress when the connection drops resp. when the
aggregator restarts and resumed by the next session, reconnects between two runs, a first run after a reconnect; the
first session requires R0 (every role set for the histories with a run spanning the sessions, else R and its
complement), the second the shard's R. After every step every engine whose state changed is swept as U: every route
with a unit / run id (all methods), every listing; rpc calls reaching the engine and changes of the unit state are
observed. Oracle = the property's: required roles of the unit = its latest UodInfoMsg, of a recent run = those of its unit
when it ended.

Real identity -> roles mapping (`_real_mapping`): in every shard the dependency overrides are lifted, authentication is
switched on and person / application identities presenting real signed tokens call the same process in an order history
covering every ordered pair of identities (privileged application then unprivileged application, person then
application, ..., repeated); every id route and listing is judged against the roles the caller's own token maps to
(`roles` claim, plus the documented implicit "Daemon" role of application tokens).
"""
from __future__ import annotations

import enum
import itertools
import json
import os
import random
import re
import shutil
import tempfile
import threading
import typing

from opv.core import Result

ID = "C32"
LEVEL = "fault_enumeration"
TECHNIQUE = ("runtime monitoring: differential HTTP/websocket responses of the real FastAPI app under injected role "
             "sets, sentinel-leak scan, rpc-channel mock")
RULE = ("every route discovered from app.routes at run time (HTTP routes with a unit/engine/run path parameter: GET, "
        "POST, PUT, DELETE, PATCH with a request body built from the route's pydantic body model; every parameter-less "
        "GET route as a potential listing; every websocket route under /api/lsp) x every required-role set R of the "
        "role universe ({A,B} quick, {A,B,C} thorough) x every user-role set U of the same universe x 2 worlds (unit "
        "with an active run / unit whose run has stopped; each also has a persisted recent run and an offline "
        "recent-engine record carrying R). One shard per (R,U). Every denied request is paired with a control request "
        "by a user holding exactly R against identical state (proves the request is well-formed) and with the same "
        "request for a non-existent id. Two-session scenarios: for every earlier role set R0 of the universe x 2 "
        "endings of the second session (websocket disconnect / aggregator shutdown, restart emulated by emptying the "
        "in-memory maps over the same database) one engine id goes through session 1 (register, uod-info R0, "
        "disconnect) and session 2 (register, uod-info R, ending); every parameter-less GET route that lists the unit "
        "for a user holding the latest roles is judged for U at four points (online 1 / offline 1 against R0, online 2 "
        "/ offline 2 against R), every GET route with a unit id is requested for the offline unit at the end; so all "
        "(R0, R1, U) triples over the universe are enumerated. distinct = (method, route, R, U, world) resp. (route, "
        "R0, R1, U, point, ending); non-trivial = R is non-empty resp. R0 != R1 (a role "
        "decision is actually taken). Engine life cycles: 5 histories over 8 global steps (run in progress at a websocket "
        "disconnect / at an aggregator restart and resumed by the next session; run completed, then disconnect / restart, "
        "second session with a second run; idle first session, run in the second) x first-session role set R0 (all "
        "role sets of the universe for the two histories whose run spans the sessions, {R, universe minus R} for the "
        "others), second session requires R; after every step every engine that had an event (one per identical "
        "history prefix) is swept as U over every route with a unit/run id (all methods while online; run routes and "
        "GET unit routes while offline; run routes for every stored run and the run in progress) and over every "
        "parameter-less GET route (entries of a JSON list answer attributed to the unit / stored run they name); a "
        "denied request is paired with one control by a holder of the required roles per (route, stage, subject, "
        "role set) and the answer for a non-existent id. distinct = (method, route, history, R0, R, U, stage, "
        "subject). Real identity->roles mapping: in every shard, with the real auth.user_roles/user_id/user_name and "
        "authentication enabled, identities {person (PKCE ID token), application (client-secret access token, "
        "idtyp=app)} x token role sets {U, R} plus the application without app roles call the same process in an order "
        "history in which every ordered pair of identities occurs as consecutive callers (closed Euler walk, n*n+1 "
        "steps); at every step the caller sweeps every id route (all methods) of one target (unit with an active run "
        "requiring R / unit without one requiring R / unit requiring the implicit application role 'Daemon', in turn) "
        "and every parameter-less GET route (units, offline units, recent runs requiring R, 'Daemon' or nothing), "
        "judged by the same oracle against the roles the caller's own token maps to. distinct = (method, route, R, U, "
        "identity, target, previous identity). Seed varies sentinel strings, role names, ids, route order and the order "
        "history only.")
ASSUMPTIONS = [
    "roles reach the handlers only through the FastAPI dependencies auth.user_roles/user_id/user_name. The role-set "
    "strata override them; the real-mapping stratum runs the real functions with authentication enabled (module "
    "globals set as the ENABLE_AZURE_AUTHENTICATION / AZURE_* environment variables set them at import) on real "
    "RS256-signed tokens verified by the real decode_token_or_fail; only the download of the signing keys is replaced "
    "by locally generated keys",
    "the roles of an identity are those /repo documents: the `roles` claim of the token presented with the request, plus "
    "'Daemon' for an application token (idtyp=app; docs 'User Authorization (OIDC)', auth.user_roles); an identity's "
    "roles do not depend on which other identities called before",
    "'refused' = HTTP 401/403, or a response byte-identical (status + body, ids normalised) to the response for a "
    "non-existent id, which by construction carries no information about the unit",
    "a sentinel string seeded into unit/run data appearing in a response body is a read of that unit's data; echoes of "
    "the id the caller supplied are not",
    "the LSP server runs inside the aggregator process (routers/lsp.py websocket -> OPPythonLSPServer -> "
    "lsp_analysis.fetch_* -> agg_deps.get_aggregator()); it is driven through the real websocket route with "
    "initialize(engineId)/didOpen/completion/hover; lint (debounced on a wall-clock timer thread) is not driven",
    "the rpc channel mock stands for the engine: any call of channel.other.dispatch_message_async is 'reached the engine'",
    "frontend pubsub topics (/api/frontend-pubsub) carry no unit data and are outside the quantifier",
    "the roles a unit requires are those of the UodInfoMsg of its LATEST session; an offline unit keeps them. The "
    "window between the registration of a session and its UodInfoMsg (no roles known yet) is not judged, nor is a "
    "session that ends before it sent a UodInfoMsg (not generated)",
    "an aggregator restart is emulated by Aggregator.shutdown() followed by emptying the engine-data and channel maps "
    "in place; the database file is kept",
    "a recent run requires the roles its unit required (latest UodInfoMsg) when the run ended; for a run that started in "
    "one session and ended in the next one with different roles the property text does not say which set counts: only "
    "users for whom both sets give the same answer are judged on that run (the unit itself is judged by its latest "
    "UodInfoMsg throughout)",
    "engine sessions are driven at the message level (REST registration, mock rpc channel, dispatch_message) in the "
    "order engine_runner posts them (register, UodInfoMsg, MethodMsg, tags, control/method state, error log, run log); "
    "no real engine process, no message buffering during the outage",
]
REQUIRED = {"denied_checks": 150, "authorised_ok": 300, "listing_checks": 20, "rpc_seen_on_control": 10,
            "ws_denied_checks": 5, "ws_authorised_ok": 5, "id_routes_discovered": 16 * 20,
            "two_session_engines": 16 * 8, "two_session_offline_denied_checks": 60,
            "two_session_offline_authorised_listed": 100, "two_session_tightened_offline_denied_checks": 18,
            "two_session_relaxed_offline_authorised_listed": 18, "two_session_after_shutdown_checks": 64,
            "two_session_offline_id_route_requests": 16 * 8 * 10,
            # engine life cycles (quick: 16 shards x 14 engines)
            "life_engines": 16 * 14, "life_restarts": 16, "life_sweeps": 800,
            "life_s2_resumed_run_after_disconnect_unit_denied_checks": 200,
            "life_s2_resumed_run_after_restart_unit_denied_checks": 200,
            "life_s2_resumed_run_after_disconnect_unit_authorised_ok": 450,
            "life_s2_resumed_run_after_restart_unit_authorised_ok": 450,
            "life_s2_resumed_run_after_disconnect_unit_rpc_seen_on_control": 40,
            "life_s2_resumed_run_after_restart_unit_rpc_seen_on_control": 40,
            "life_s2_stopped_resumed_run_run_resumed_denied_checks": 100,
            "life_s2_stopped_resumed_run_run_resumed_authorised_ok": 350,
            "life_s2_running_unit_denied_checks": 300, "life_s2_stopped_run_denied_checks": 200,
            "life_listing_unit_s2_resumed_run_after_disconnect_denied_checks": 20,
            "life_listing_unit_s2_resumed_run_after_restart_denied_checks": 20,
            "life_listing_run_resumed_denied_checks": 40, "life_listing_run_resumed_authorised_listed": 130,
            "life_listing_unit_off1_midrun_denied_checks": 10, "life_listing_unit_off1_midrun_restart_denied_checks": 10,
            # real identity -> roles mapping (auth enabled, real user_roles/user_id/user_name), order histories
            "real_map_steps": 250, "real_map_requests_judged": 6000, "real_map_denied_checks": 1200,
            "real_map_authorised_ok": 2500, "real_map_app_denied_checks": 500, "real_map_person_denied_checks": 500,
            "real_map_app_denied_before_any_served_caller_checks": 100,
            "real_map_app_after_privileged_app_denied_checks": 250,
            "real_map_app_right_after_privileged_app_denied_checks": 100,
            "real_map_app_after_privileged_person_denied_checks": 150,
            "real_map_person_after_privileged_app_denied_checks": 300,
            "real_map_app_served_by_implicit_daemon_role": 400,
            "real_map_person_without_daemon_role_denied_checks": 400,
            "real_map_listing_denied_checks": 300, "real_map_listing_app_after_app_denied_checks": 100,
            "real_map_listing_authorised_listed": 1000}
EXHAUSTIVE_ALL = True

ID_PARAM = re.compile(r"(unit|engine|run)", re.I)
REFUSED = (401, 403)
WS_TIMEOUT_S = 60.0     # watchdog only; a timeout is counted as inconclusive, never as a verdict


# --------------------------------------------------------------------------------------------- plan

def _subsets(universe):
    out = []
    for k in range(len(universe) + 1):
        out += [list(c) for c in itertools.combinations(universe, k)]
    return out


def plan(tier, seed):
    universe = ["A", "B"] if tier == "quick" else ["A", "B", "C"]
    specs = []
    i = 0
    for R in _subsets(universe):
        for U in _subsets(universe):
            specs.append({"seed": seed * 1000003 + i, "R": R, "U": U, "universe": universe})
            i += 1
    return specs


# --------------------------------------------------------------------------------------------- rig

class Sent:
    """Unique sentinel strings. Every sentinel contains `self.mark`; ids never do."""

    def __init__(self, rnd: random.Random, prefix="OPVSNT"):
        self.tok = "".join(rnd.choice("abcdefghjkmnpqrstuvwxyz") for _ in range(8))
        self.mark = prefix + self.tok

    def __call__(self, kind: str) -> str:
        return f"{self.mark}{kind}"


class Rig:
    def __init__(self, spec):
        self.spec = spec
        self.rnd = random.Random(spec["seed"])
        self.S = Sent(self.rnd)
        self.role_name = {r: f"role{r}{self.S.tok[:3]}" for r in spec["universe"]}
        self.R = {self.role_name[r] for r in spec["R"]}
        self.U = {self.role_name[r] for r in spec["U"]}
        self.cur_roles: set[str] = set()
        self.uid = "opvuid" + self.S.tok
        self.uname = "OPVNAME" + self.S.tok.upper()
        self.n = 0
        self.rpc_calls: list = []

    # ---- lifecycle
    def __enter__(self):
        import logging
        logging.disable(logging.CRITICAL)
        self.dir = tempfile.mkdtemp(prefix="opv-")
        try:
            from fastapi.testclient import TestClient
            from openpectus.aggregator.aggregator_server import AggregatorServer
            import openpectus.aggregator.routers.auth as auth
            import openpectus.aggregator.data.models as DMdl
            from openpectus.aggregator.data import database
            self.auth = auth
            self.srv = AggregatorServer(db_path=os.path.join(self.dir, "a.sqlite3"), webpush_keys_path=self.dir)
            DMdl.DBModel.metadata.create_all(database._engine)
            self.app = self.srv.fastapi
            self.app.dependency_overrides[auth.user_roles] = lambda: set(self.cur_roles)
            self.app.dependency_overrides[auth.user_id] = lambda: self.uid
            self.app.dependency_overrides[auth.user_name] = lambda: self.uname
            self.client = TestClient(self.app, raise_server_exceptions=False)
            self.client.__enter__()
        except BaseException:
            shutil.rmtree(self.dir, ignore_errors=True)
            raise
        return self

    def __exit__(self, *a):
        try:
            self.client.__exit__(None, None, None)
        except Exception:
            pass
        finally:
            shutil.rmtree(self.dir, ignore_errors=True)

    # ---- seeding through the real engine-facing path
    def _dispatch(self, msg):
        import openpectus.protocol.aggregator_messages as AM
        r = self.client.portal.call(self.srv.dispatcher.dispatch_message, msg)
        if not isinstance(r, AM.SuccessMessage):
            raise RuntimeError(f"rig: seeding message {type(msg).__name__} rejected: {r}")

    def seed_engine(self, roles: set[str], active_run: bool, online: bool = True, S: Sent | None = None) -> dict:
        """Registers an engine requiring `roles`, runs one run to completion (-> persisted recent run requiring
        `roles`), optionally starts a second run that stays active. Returns the ids."""
        from unittest.mock import Mock, AsyncMock
        from fastapi_websocket_rpc.schemas import RpcResponse
        import openpectus.protocol.engine_messages as EM
        import openpectus.protocol.aggregator_messages as AM
        import openpectus.protocol.models as PM
        import openpectus.aggregator.models as Mdl
        from openpectus.protocol.serialization import serialize
        from openpectus.protocol.dispatch_interface import AGGREGATOR_REST_PATH
        from openpectus import __version__
        S = S or self.S
        self.n += 1
        n = self.n
        reg = EM.RegisterEngineMsg(computer_name=f"opvpc{n}x{S.tok}", uod_name=f"opvuod{n}", uod_author_name=S("AUTHOR"),
                                   uod_author_email=S("EMAIL"), uod_filename=S("UODFILE"), location=S("LOCATION"),
                                   engine_version=__version__)
        r = self.client.post(AGGREGATOR_REST_PATH, json=serialize(reg))
        if r.status_code != 200 or not r.json().get("success"):
            raise RuntimeError(f"rig: engine registration failed: {r.status_code} {r.text[:200]}")
        eid = r.json()["engine_id"]
        ok = json.dumps(serialize(AM.SuccessMessage()))

        async def _rpc(message_json=None, **kw):
            self.rpc_calls.append((eid, (message_json or {}).get("_type")))
            return RpcResponse[str](result=ok, result_type=None)

        ch = Mock(close=AsyncMock(), other=Mock(
            get_engine_id_async=AsyncMock(return_value=RpcResponse[str | None](result=eid, result_type=None)),
            dispatch_message_async=AsyncMock(side_effect=_rpc)))
        self.client.portal.call(self.srv.dispatcher._on_delayed_client_connect, ch)
        if not self.srv.dispatcher.has_connected_engine_id(eid):
            raise RuntimeError("rig: mock rpc channel was not accepted")

        tagS, tagF = S("TAGSTR"), S("TAGNUM")
        cmd, doc = S("UODCMD"), S("DOCSTRING")
        readings = [
            PM.ReadingInfo(discriminator="reading", tag_name=tagS, valid_value_units=None, entry_data_type=None,
                           commands=[], command_options=None),
            PM.ReadingInfo(discriminator="reading_with_choice", tag_name=tagF, valid_value_units=["L"],
                           entry_data_type=None,
                           commands=[PM.ReadingCommand(command_id=S("RCMDID"), name=S("RCMDNAME"), command=S("RCMD"),
                                                       choice_names=[S("CHOICE1"), S("CHOICE2")])],
                           command_options={S("CHOICE1"): S("RCMD") + ": 1", S("CHOICE2"): S("RCMD") + ": 2"}),
        ]
        sysc = [PM.CommandDefinition(name=nm, validator=None, docstring=None)
                for nm in ("Watch", "Alarm", "Mark", "Block", "End block", "Stop", "Pause")]
        uod_def = PM.UodDefinition(commands=[PM.CommandDefinition(name=cmd, validator=None, docstring=doc)],
                                   system_commands=sysc,
                                   tags=[PM.TagDefinition(name=tagS), PM.TagDefinition(name=tagF, unit="L")])
        plot = PM.PlotConfiguration(
            process_value_names_to_annotate=[tagS], x_axis_process_value_names=[tagF],
            color_regions=[PM.PlotColorRegion(process_value_name=tagS, value_color_map={S("VALUE"): "#ff0000"})],
            sub_plots=[PM.SubPlot(axes=[PM.PlotAxis(label=S("AXIS"), process_value_names=[tagF], y_max=10, y_min=0,
                                                    color="#00ff00")], ratio=1)])
        self._dispatch(EM.UodInfoMsg(engine_id=eid, readings=readings,
                                     commands=[PM.CommandInfo(name=cmd, docstring=doc)], uod_definition=uod_def,
                                     plot_configuration=plot, hardware_str=S("HARDWARE"), required_roles=set(roles),
                                     data_log_interval_seconds=0.5))
        lines = [PM.MethodLine(id=f"ml{n}a", content=f"Mark: {S('METHODLINE')}"),
                 PM.MethodLine(id=f"ml{n}b", content=f"{cmd}: 1"), PM.MethodLine(id=f"ml{n}c", content="")]
        self._dispatch(EM.MethodMsg(engine_id=eid, method=PM.Method(version=0, lines=lines)))

        def tags(t, k, run):
            return EM.TagsUpdatedMsg(engine_id=eid, run_id=run, tags=[
                PM.TagValue(name=tagS, tick_time=t, value=S("VALUE"), value_unit=None, value_formatted=S("FORMATTED")),
                PM.TagValue(name=tagF, tick_time=t, value=1.5 + k, value_unit="L"),
                PM.TagValue(name="System State", tick_time=t, value="Running" if run else "Stopped", value_unit=None),
                PM.TagValue(name="Run Time", tick_time=t, value=float(k), value_unit="s")])

        def runlog(line_id, t):
            return PM.RunLog(lines=[PM.RunLogLine(
                id=line_id, command_name=S("RUNLOGCMD"), start=t, end=None, progress=0.5,
                start_values=[PM.TagValue(name=tagS, tick_time=t, value=S("VALUE"), value_unit=None)], end_values=[],
                forcible=True, cancellable=True)])

        def one_run(run_id, line_id, t0, stop):
            self._dispatch(EM.RunStartedMsg(engine_id=eid, run_id=run_id, started_tick=t0))
            self._dispatch(EM.ControlStateMsg(engine_id=eid, control_state=PM.ControlState(
                is_running=True, is_holding=False, is_paused=False)))
            for k in range(3):
                self._dispatch(tags(t0 + 1.0 + k, k, run_id))
            self._dispatch(EM.RunLogMsg(engine_id=eid, id=f"rl{n}", run_id=run_id, runlog=runlog(line_id, t0 + 1.0)))
            self._dispatch(EM.ErrorLogMsg(engine_id=eid, log=PM.ErrorLog(entries=[
                PM.ErrorLogEntry(message=S("ERRORMSG"), created_time=t0 + 2.0, severity=40)])))
            mstate = PM.MethodState(started_line_ids=[f"ml{n}a"], executed_line_ids=[], injected_line_ids=[],
                                    failed_line_ids=[])
            self._dispatch(EM.MethodStateMsg(engine_id=eid, method_state=mstate))
            if stop:
                self._dispatch(EM.RunStoppedMsg(engine_id=eid, run_id=run_id, runlog=runlog(line_id, t0 + 1.0),
                                                method_state=mstate, archive=S("ARCHIVECONTENT"),
                                                archive_filename=S("ARCHIVEFILE") + ".zip"))

        run1, line1 = f"opvrun{n}p{S.tok}", f"opvline{n}p"
        one_run(run1, line1, 1000.0, stop=True)
        live_run, live_line = None, line1
        if active_run:
            live_run, live_line = f"opvrun{n}l{S.tok}", f"opvline{n}l"
            one_run(live_run, live_line, 2000.0, stop=False)
        else:
            self._dispatch(tags(2000.0, 0, None))
        ed = self.srv.aggregator.get_registered_engine_data(eid)
        if ed is None or set(ed.required_roles) != set(roles):
            raise RuntimeError("rig: seeded engine data missing or roles not applied")
        ed.active_users[self.uid] = Mdl.ActiveUser(id=self.uid, name=S("ACTIVEUSER"))
        ed.active_users["other"] = Mdl.ActiveUser(id="other", name=S("ACTIVEUSER2"))
        w = {"engine_id": eid, "run_id": run1, "line_id": live_line, "live_run": live_run, "channel": ch,
             "active_run": active_run}
        if not online:
            self.client.portal.call(self.srv.dispatcher.on_client_disconnect, ch)
            if self.srv.aggregator.get_registered_engine_data(eid) is not None:
                raise RuntimeError("rig: engine did not go offline")
        return w

    # ---- light-weight sessions of one engine id (two-session scenarios)
    def open_session(self, key: str, roles: set[str], S: Sent, session_no: int):
        """register (REST) + websocket (mock channel) + UodInfoMsg(required_roles=roles) + one tags update. The engine
        id depends on `key` only, so a second call with the same key is a new session of the same engine."""
        from unittest.mock import Mock, AsyncMock
        from fastapi_websocket_rpc.schemas import RpcResponse
        import openpectus.protocol.engine_messages as EM
        import openpectus.protocol.models as PM
        from openpectus.protocol.serialization import serialize
        from openpectus.protocol.dispatch_interface import AGGREGATOR_REST_PATH
        from openpectus import __version__
        reg = EM.RegisterEngineMsg(computer_name=f"opvtwo{key}x{S.tok}", uod_name=f"opvuod{key}",
                                   uod_author_name=S(f"AUTHOR{key}S{session_no}"), uod_author_email=S("EMAIL"),
                                   uod_filename=S("UODFILE"), location=S(f"LOC{key}S{session_no}"),
                                   engine_version=__version__)
        r = self.client.post(AGGREGATOR_REST_PATH, json=serialize(reg))
        if r.status_code != 200 or not r.json().get("success"):
            raise RuntimeError(f"rig: engine registration failed: {r.status_code} {r.text[:200]}")
        eid = r.json()["engine_id"]
        ch = Mock(close=AsyncMock(), other=Mock(
            get_engine_id_async=AsyncMock(return_value=RpcResponse[str | None](result=eid, result_type=None)),
            dispatch_message_async=AsyncMock()))
        self.client.portal.call(self.srv.dispatcher._on_delayed_client_connect, ch)
        if not self.srv.dispatcher.has_connected_engine_id(eid):
            raise RuntimeError("rig: mock rpc channel was not accepted")
        self._dispatch(EM.UodInfoMsg(engine_id=eid, readings=[], commands=[],
                                     uod_definition=PM.UodDefinition(commands=[], system_commands=[], tags=[]),
                                     plot_configuration=PM.PlotConfiguration.empty(), hardware_str=S(f"HW{key}"),
                                     required_roles=set(roles), data_log_interval_seconds=1.0))
        self._dispatch(EM.TagsUpdatedMsg(engine_id=eid, run_id=None, tags=[
            PM.TagValue(name="System State", tick_time=1000.0 * session_no, value="Stopped", value_unit=None)]))
        ed = self.srv.aggregator.get_registered_engine_data(eid)
        if ed is None or set(ed.required_roles) != set(roles):
            raise RuntimeError("rig: session engine data missing or roles not applied")
        return eid, ch

    def close_session(self, eid, ch):
        self.client.portal.call(self.srv.dispatcher.on_client_disconnect, ch)
        if self.srv.aggregator.get_registered_engine_data(eid) is not None:
            raise RuntimeError("rig: engine did not go offline")

    # ---- engine life cycles (one engine id, several sessions, runs that may span sessions)
    def life_open(self, key: str, roles: set[str], S: Sent, session_no: int, live_run: str | None):
        """One connection of an engine, in the order engine_runner uses: register (REST), websocket (mock channel whose
        dispatch_message_async records what reaches the engine), UodInfoMsg(required_roles=roles), then what the
        catch-up / steady-state loop posts (MethodMsg, tags, control state, method state and - while a run is in
        progress on the engine - the run log of that run). Deliberately does NOT look at the role state the
        aggregator derived: that is what the sweep judges through the routes."""
        from unittest.mock import Mock, AsyncMock
        from fastapi_websocket_rpc.schemas import RpcResponse
        import openpectus.protocol.engine_messages as EM
        import openpectus.protocol.aggregator_messages as AM
        import openpectus.protocol.models as PM
        from openpectus.protocol.serialization import serialize
        from openpectus.protocol.dispatch_interface import AGGREGATOR_REST_PATH
        from openpectus import __version__
        reg = EM.RegisterEngineMsg(computer_name=f"opvlife{key}x{S.tok}", uod_name=f"opvuod{key}",
                                   uod_author_name=S(f"AUTHOR{key}S{session_no}"), uod_author_email=S("EMAIL"),
                                   uod_filename=S("UODFILE"), location=S(f"LOC{key}S{session_no}"),
                                   engine_version=__version__)
        r = self.client.post(AGGREGATOR_REST_PATH, json=serialize(reg))
        if r.status_code != 200 or not r.json().get("success"):
            raise RuntimeError(f"rig: engine registration failed: {r.status_code} {r.text[:200]}")
        eid = r.json()["engine_id"]
        ok = json.dumps(serialize(AM.SuccessMessage()))

        async def _rpc(message_json=None, **kw):
            self.rpc_calls.append((eid, (message_json or {}).get("_type")))
            return RpcResponse[str](result=ok, result_type=None)

        ch = Mock(close=AsyncMock(), other=Mock(
            get_engine_id_async=AsyncMock(return_value=RpcResponse[str | None](result=eid, result_type=None)),
            dispatch_message_async=AsyncMock(side_effect=_rpc)))
        self.client.portal.call(self.srv.dispatcher._on_delayed_client_connect, ch)
        if not self.srv.dispatcher.has_connected_engine_id(eid):
            raise RuntimeError("rig: mock rpc channel was not accepted")
        tagS, cmd = S("TAGSTR"), S("UODCMD")
        sysc = [PM.CommandDefinition(name=nm, validator=None, docstring=None)
                for nm in ("Watch", "Alarm", "Mark", "Block", "End block", "Stop", "Pause")]
        self._dispatch(EM.UodInfoMsg(
            engine_id=eid,
            readings=[PM.ReadingInfo(discriminator="reading", tag_name=tagS, valid_value_units=None,
                                     entry_data_type=None, commands=[], command_options=None)],
            commands=[PM.CommandInfo(name=cmd, docstring=S("DOCSTRING"))],
            uod_definition=PM.UodDefinition(
                commands=[PM.CommandDefinition(name=cmd, validator=None, docstring=S("DOCSTRING"))],
                system_commands=sysc, tags=[PM.TagDefinition(name=tagS)]),
            plot_configuration=PM.PlotConfiguration(
                process_value_names_to_annotate=[tagS], x_axis_process_value_names=[tagS], color_regions=[],
                sub_plots=[PM.SubPlot(axes=[PM.PlotAxis(label=S("AXIS"), process_value_names=[tagS], y_max=10, y_min=0,
                                                        color="#00ff00")], ratio=1)]),
            hardware_str=S(f"HW{key}"), required_roles=set(roles), data_log_interval_seconds=0.5))
        lines = [PM.MethodLine(id=f"lf{key}a", content=f"Mark: {S('METHODLINE')}"), PM.MethodLine(id=f"lf{key}b", content="")]
        self._dispatch(EM.MethodMsg(engine_id=eid, method=PM.Method(version=0, lines=lines)))
        self.life_feed(eid, key, S, live_run, 1000.0 * session_no)
        if self.srv.aggregator.get_registered_engine_data(eid) is None:
            raise RuntimeError("rig: life-cycle engine data missing")
        return eid, ch

    def life_feed(self, eid: str, key: str, S: Sent, run_id: str | None, t: float):
        """one round of the steady-state loop: tags, control state, method state, error log, run log of the live run"""
        import openpectus.protocol.engine_messages as EM
        import openpectus.protocol.models as PM
        self._dispatch(EM.TagsUpdatedMsg(engine_id=eid, run_id=run_id, tags=[
            PM.TagValue(name=S("TAGSTR"), tick_time=t, value=S("VALUE"), value_unit=None, value_formatted=S("FORMATTED")),
            PM.TagValue(name="System State", tick_time=t, value="Running" if run_id else "Stopped", value_unit=None),
            PM.TagValue(name="Run Time", tick_time=t, value=1.0, value_unit="s")]))
        self._dispatch(EM.ControlStateMsg(engine_id=eid, control_state=PM.ControlState(
            is_running=bool(run_id), is_holding=False, is_paused=False)))
        self._dispatch(EM.MethodStateMsg(engine_id=eid, method_state=PM.MethodState(
            started_line_ids=[f"lf{key}a"] if run_id else [], executed_line_ids=[], injected_line_ids=[],
            failed_line_ids=[])))
        self._dispatch(EM.ErrorLogMsg(engine_id=eid, log=PM.ErrorLog(entries=[
            PM.ErrorLogEntry(message=S("ERRORMSG"), created_time=t, severity=40)])))
        if run_id:
            self._dispatch(EM.RunLogMsg(engine_id=eid, id=f"rl{key}", run_id=run_id, runlog=self.life_runlog(key, S, t)))

    @staticmethod
    def life_runlog(key: str, S: Sent, t: float):
        import openpectus.protocol.models as PM
        return PM.RunLog(lines=[PM.RunLogLine(
            id=f"opvlifeline{key}", command_name=S("RUNLOGCMD"), start=t, end=None, progress=0.5,
            start_values=[PM.TagValue(name=S("TAGSTR"), tick_time=t, value=S("VALUE"), value_unit=None)], end_values=[],
            forcible=True, cancellable=True)])

    def life_run_started(self, eid: str, key: str, S: Sent, run_id: str, t: float):
        import openpectus.protocol.engine_messages as EM
        self._dispatch(EM.RunStartedMsg(engine_id=eid, run_id=run_id, started_tick=t))
        self.life_feed(eid, key, S, run_id, t + 1.0)
        self.life_feed(eid, key, S, run_id, t + 2.0)

    def life_run_stopped(self, eid: str, key: str, S: Sent, run_id: str, t: float):
        import openpectus.protocol.engine_messages as EM
        import openpectus.protocol.models as PM
        self._dispatch(EM.RunStoppedMsg(
            engine_id=eid, run_id=run_id, runlog=self.life_runlog(key, S, t),
            method_state=PM.MethodState(started_line_ids=[f"lf{key}a"], executed_line_ids=[], injected_line_ids=[],
                                        failed_line_ids=[]),
            archive=S("ARCHIVECONTENT"), archive_filename=S("ARCHIVEFILE") + ".zip"))
        self.life_feed(eid, key, S, None, t + 1.0)

    def restart_aggregator(self):
        """Aggregator.shutdown() (what the server's lifespan runs), then the process is 'gone': the in-memory maps are
        emptied in place, the database stays."""
        self.client.portal.call(self.srv.aggregator.shutdown)
        self.srv.aggregator._engine_data_map.clear()
        self.srv.dispatcher._engine_id_channel_map.clear()

    # ---- the REAL identity -> roles mapping of routers/auth.py: authentication enabled, no dependency overrides
    def real_auth_enter(self):
        """What ENABLE_AZURE_AUTHENTICATION / AZURE_DIRECTORY_TENANT_ID / AZURE_APPLICATION_CLIENT_ID set at import time
        is set on the module (the functions read the globals per call); the three identity dependencies are the real
        auth.user_roles / user_id / user_name again. Only the download of the signing keys is replaced: both key clients
        answer with a locally generated RSA key, the tokens are real RS256-signed JWTs verified by the real
        decode_token_or_fail (signature, audience, issuer, expiry)."""
        import jwt
        from cryptography.hazmat.primitives.asymmetric import rsa
        auth = self.auth
        tenant, client = "0f0f0f0f-1111-2222-3333-" + self.S.tok.ljust(12, "0"), "c1c1c1c1-aaaa-bbbb-cccc-" + self.S.tok.ljust(12, "0")
        self._auth_saved = {k: getattr(auth, k) for k in ("use_auth", "tenant_id", "client_id", "authority_url",
                                                          "well_known_url", "jwks_url_access_token", "access_token_issuer")}
        self._auth_saved_overrides = dict(self.app.dependency_overrides)
        auth.use_auth, auth.tenant_id, auth.client_id = True, tenant, client
        auth.authority_url = f"https://login.microsoftonline.com/{tenant}/v2.0"
        auth.well_known_url = f"{auth.authority_url}/.well-known/openid-configuration"
        auth.jwks_url_access_token = f"https://login.microsoftonline.com/{tenant}/discovery/v2.0/keys"
        auth.access_token_issuer = f"https://sts.windows.net/{tenant}/"
        # PKCE flow (persons, ID token) and client-secret flow (applications, access token) use different keys
        self._keys = {"person": rsa.generate_private_key(public_exponent=65537, key_size=2048),
                      "app": rsa.generate_private_key(public_exponent=65537, key_size=2048)}

        def pyjwk(k):
            d = jwt.algorithms.RSAAlgorithm.to_jwk(k.public_key(), as_dict=True)
            d.update({"kid": "opv", "use": "sig", "alg": "RS256"})
            return jwt.PyJWK.from_dict(d)
        self._jwks_saved = (auth.jwks_client_pkce.__dict__.get("get_signing_key_from_jwt"),
                            auth.jwks_client_secret.__dict__.get("get_signing_key_from_jwt"))
        pk_person, pk_app = pyjwk(self._keys["person"]), pyjwk(self._keys["app"])
        auth.jwks_client_pkce.get_signing_key_from_jwt = lambda token: pk_person
        auth.jwks_client_secret.get_signing_key_from_jwt = lambda token: pk_app
        for f in (auth.user_roles, auth.user_id, auth.user_name):
            self.app.dependency_overrides.pop(f, None)

    def real_auth_exit(self):
        auth = self.auth
        for k, v in self._auth_saved.items():
            setattr(auth, k, v)
        for cl, old in zip((auth.jwks_client_pkce, auth.jwks_client_secret), self._jwks_saved):
            if old is None:
                cl.__dict__.pop("get_signing_key_from_jwt", None)
            else:
                cl.get_signing_key_from_jwt = old
        self.app.dependency_overrides.clear()
        self.app.dependency_overrides.update(self._auth_saved_overrides)

    def make_token(self, kind: str, roles, oid: str) -> str:
        """person: ID token of the PKCE flow (issuer = authority, preferred_username); app: access token of the client
        secret flow (issuer sts.windows.net, optional claim idtyp=app, `roles` claim absent when no app role is assigned)"""
        import jwt
        import time as _t
        auth = self.auth
        claims: dict = {"aud": auth.client_id, "exp": int(_t.time()) + 24 * 3600, "iat": int(_t.time()) - 60, "oid": oid}
        if roles:
            claims["roles"] = sorted(roles)
        if kind == "app":
            claims.update({"iss": auth.access_token_issuer, "idtyp": "app"})
        else:
            claims.update({"iss": auth.authority_url, "preferred_username": f"{self.uname.lower()}@example.org",
                           "name": self.uname})
        return jwt.encode(claims, self._keys[kind], algorithm="RS256", headers={"kid": "opv"})

    def request_token(self, token: str, method: str, url: str, params=None, body=None):
        kw = {}
        if params:
            kw["params"] = params
        if body is not None:
            kw["json"] = body
        r = self.client.request(method, url, headers={"X-Identity": token}, **kw)
        return r.status_code, r.text

    # ---- mutable state (only what the routes can change) is restored between requests
    def snapshot(self, w):
        ed = self.srv.aggregator.get_registered_engine_data(w["engine_id"])
        return json.dumps({"method": ed.method.model_dump(), "active_users": sorted(ed.active_users),
                           "contributors": sorted(str(c) for c in ed.contributors)}, sort_keys=True, default=str)

    def save_state(self, w):
        ed = self.srv.aggregator.get_registered_engine_data(w["engine_id"])
        w["_saved"] = (ed.method.model_copy(deep=True), dict(ed.active_users), set(ed.contributors))

    def restore_state(self, w):
        ed = self.srv.aggregator.get_registered_engine_data(w["engine_id"])
        m, au, co = w["_saved"]
        ed.method = m.model_copy(deep=True)
        ed.active_users = dict(au)
        ed.contributors = set(co)
        self.rpc_calls.clear()

    # ---- requests
    def request(self, roles: set[str], method: str, url: str, params=None, body=None):
        self.cur_roles = set(roles)
        kw = {}
        if params:
            kw["params"] = params
        if body is not None:
            kw["json"] = body
        r = self.client.request(method, url, headers={"X-Identity": "opv-harness-token"}, **kw)
        return r.status_code, r.text


# ------------------------------------------------------------------------------- request synthesis

def _example_for_type(tp, S, depth=0):
    """Generic JSON-able value for a type annotation (fallback for body models the harness has no recipe for)."""
    import pydantic
    origin = typing.get_origin(tp)
    args = typing.get_args(tp)
    if tp is type(None):
        return None
    if origin is typing.Annotated:
        return _example_for_type(args[0], S, depth)
    if origin in (typing.Union, getattr(__import__("types"), "UnionType")):
        non_none = [a for a in args if a is not type(None)]
        return _example_for_type(non_none[0], S, depth) if non_none else None
    if origin in (list, set, frozenset, tuple, typing.Sequence):
        return []
    if origin is dict:
        return {}
    if origin is typing.Literal:
        return args[0]
    if isinstance(tp, type):
        if issubclass(tp, enum.Enum):
            return list(tp)[0].value
        if issubclass(tp, pydantic.BaseModel):
            return _example_for_model(tp, S, depth + 1)
        if issubclass(tp, bool):
            return True
        if issubclass(tp, int):
            return 1
        if issubclass(tp, float):
            return 1.0
        if issubclass(tp, str):
            return "opvvalue"
    return "opvvalue"


def _example_for_model(model, S, depth=0):
    out = {}
    if depth > 4:
        return out
    for name, f in model.model_fields.items():
        if f.is_required():
            out[f.alias or name] = _example_for_type(f.annotation, S, depth)
    return out


def build_body(route, rig: Rig, w):
    """Valid request body for the route's pydantic body model, from the *current* unit state."""
    bf = route.body_field
    if bf is None:
        return None
    tp = bf.type_
    name = getattr(tp, "__name__", "")
    ed = rig.srv.aggregator.get_registered_engine_data(w["engine_id"]) if w else None
    if name == "ExecutableCommand":
        # accepted by both execute_command (injects "Stop") and execute_control_button_command (title-cased button)
        return {"command": "Stop", "source": "unit_button"}
    if name == "Method" and "version" in getattr(tp, "model_fields", {}):
        version = ed.method.version if ed is not None else 0
        return {"lines": [{"id": "opvnew1", "content": "Mark: opvedit"}, {"id": "opvnew2", "content": ""}],
                "version": version, "last_author": "opv"}
    return _example_for_type(tp, rig.S)


def build_params(route, rig: Rig):
    params = {}
    for q in route.dependant.query_params:
        if q.name == "user_id":
            params[q.name] = rig.uid
        else:
            v = _example_for_type(q.type_, rig.S)
            params[q.name] = v if not isinstance(v, (list, dict)) else "opvq"
    return params


def build_url(route, ids: dict, line_id: str):
    url = route.path
    for p in route.dependant.path_params:
        m = ID_PARAM.search(p.name)
        if m:
            kind = m.group(1).lower()
            val = ids["run" if kind == "run" else "unit"]
        elif "line" in p.name.lower():
            val = line_id
        else:
            val = "opvparam"
        url = re.sub(r"\{" + re.escape(p.name) + r"(:[^}]*)?\}", val, url)
    return url


def has_dep(route, fn) -> bool:
    def flat(d):
        yield d
        for s in d.dependencies:
            yield from flat(s)
    return any(d.call is fn for d in flat(route.dependant))


# --------------------------------------------------------------------------------------------- LSP websocket

def lsp_conversation(rig: Rig, engine_id: str, leak_tag: str):
    """initialize(engineId) -> didOpen -> completion (past the last line: all commands; after 'Watch:': all tags) -> didChange ->
    hover on the tag (live value) and on the uod command (docstring). Returns dict step -> response text, or
    {'_error': ...}. Runs in a watchdog thread because a websocket receive has no timeout."""
    out: dict = {}

    def talk():
        try:
            with rig.client.websocket_connect("/api/lsp/websocket",
                                              headers={"X-Identity": "opv-harness-token"}) as ws:
                nid = [0]

                def req(method, params, step):
                    nid[0] += 1
                    ws.send_json({"jsonrpc": "2.0", "id": nid[0], "method": method, "params": params})
                    for _ in range(200):
                        m = ws.receive_json()
                        if m.get("id") == nid[0] and "method" not in m:
                            out[step] = json.dumps(m, sort_keys=True)
                            return
                    raise RuntimeError("no response for " + step)

                def note(method, params):
                    ws.send_json({"jsonrpc": "2.0", "method": method, "params": params})

                uri = "file:///opv/method.pcode"
                req("initialize", {"processId": None, "rootUri": None, "capabilities": {},
                                   "initializationOptions": {"engineId": engine_id}}, "initialize")
                note("initialized", {})
                note("textDocument/didOpen", {"textDocument": {"uri": uri, "languageId": "pcode", "version": 1,
                                                                "text": "Watch:\n"}})
                req("textDocument/completion", {"textDocument": {"uri": uri}, "position": {"line": 1, "character": 0}},
                    "completion_commands")
                req("textDocument/completion", {"textDocument": {"uri": uri}, "position": {"line": 0, "character": 6}},
                    "completion_tags")
                text = f"Watch: {leak_tag} > 1\n    Mark: x\n{rig.S('UODCMD')}: 1\n"
                note("textDocument/didChange", {"textDocument": {"uri": uri, "version": 2},
                                                "contentChanges": [{"text": text}]})
                req("textDocument/hover", {"textDocument": {"uri": uri}, "position": {"line": 0, "character": 9}},
                    "hover_tag_value")
                req("textDocument/hover", {"textDocument": {"uri": uri}, "position": {"line": 2, "character": 2}},
                    "hover_command_doc")
                req("shutdown", None, "shutdown")
                note("exit", None)
        except BaseException as ex:  # noqa
            out["_error"] = f"{type(ex).__name__}: {ex}"[:300]

    rig.cur_roles = set(rig.cur_roles)
    t = threading.Thread(target=talk, daemon=True)
    t.start()
    t.join(WS_TIMEOUT_S)
    if t.is_alive():
        out["_error"] = "watchdog: websocket conversation did not finish"
    return out


# --------------------------------------------------------------------------------------------- the check

def run_shard(spec):
    res = Result()
    only = spec.get("only")
    with Rig(spec) as rig:
        _run(rig, res, only)
    res.exhaustive_parts.append(
        f"all HTTP routes discovered from app.routes with a unit/engine/run path parameter, all parameter-less GET "
        f"routes, and the /api/lsp websocket routes x all required-role sets R and user-role sets U over the role "
        f"universe {spec['universe']} ({4 ** len(spec['universe'])} (R,U) pairs) x 2 worlds (active run / no active run)")
    res.exhaustive_parts.append(
        f"engine life cycles {sorted(LIFE_HISTORIES)} x first-session role sets (all for {list(LIFE_FULL_R0)}, R and its "
        f"complement otherwise) x all (R,U) pairs, swept over all id routes and listings after every step")
    return res


def _norm(text: str, ids) -> str:
    for i in sorted(ids, key=len, reverse=True):
        text = text.replace(i, "<ID>")
    return text


def _run(rig: Rig, res: Result, only=None):
    from fastapi.routing import APIRoute, APIWebSocketRoute
    auth = rig.auth
    S = rig.S
    R, U = rig.R, rig.U
    denied = bool(R) and not (R & U)
    spec_case = {"seed": rig.spec["seed"], "R": rig.spec["R"], "U": rig.spec["U"], "universe": rig.spec["universe"]}

    worlds = [("active_run", rig.seed_engine(R, active_run=True)), ("no_active_run", rig.seed_engine(R, active_run=False))]
    offline = rig.seed_engine(R, active_run=False, online=False)
    # decoy with its own sentinels, open to everyone: must stay visible and must not disturb any verdict
    decoy_S = Sent(rig.rnd, prefix="OPVDECOY")
    decoy = rig.seed_engine(set(), active_run=False, S=decoy_S)
    for _, w in worlds:
        rig.save_state(w)
    fake = {"unit": "opvnone" + S.tok, "run": "opvnorun" + S.tok}
    all_ids = [fake["unit"], fake["run"], offline["engine_id"], offline["run_id"]]
    for _, w in worlds:
        all_ids += [w["engine_id"], w["run_id"]] + ([w["live_run"]] if w["live_run"] else [])

    routes = [r for r in rig.app.routes if isinstance(r, APIRoute)]
    id_routes = [r for r in routes if any(ID_PARAM.search(p.name) for p in r.dependant.path_params)]
    plain_get = [r for r in routes if not r.dependant.path_params and "GET" in r.methods]
    ws_routes = [r for r in rig.app.routes if isinstance(r, APIWebSocketRoute)]
    order = list(id_routes)
    rig.rnd.shuffle(order)
    res.count("id_routes_discovered", len(id_routes))
    res.count("plain_get_routes_discovered", len(plain_get))
    inconclusive_routes: dict[str, str] = {}
    role_blind: set[str] = set()
    ambiguous: set[str] = set()

    def classify(route, served_same_as_authorised: bool):
        roles_dep = has_dep(route, auth.user_roles)
        if route.path.startswith("/api/lsp/") and not roles_dep and served_same_as_authorised:
            # causal shape: the route is under the LSP router and the caller's roles are not an input of it at all
            return "C32.lsp_http_routes_have_no_role_check"
        if not roles_dep:
            return "C32.route_has_no_role_dependency"
        return "C32.role_checked_route_served_denied_user"

    # ------------------------------------------------------------------ routes with a unit / run id
    for route in order:
        for method in sorted(route.methods - {"HEAD", "OPTIONS"}):
            if only and [method, route.path] != list(only):
                continue
            for wname, w in worlds:
                ids = {"unit": w["engine_id"], "run": w["run_id"]}
                key = (method, route.path, tuple(rig.spec["R"]), tuple(rig.spec["U"]), wname)
                case = {"spec": spec_case, "only": [method, route.path], "world": wname}
                url = build_url(route, ids, w["line_id"])
                url_none = build_url(route, fake, w["line_id"])
                params = build_params(route, rig)

                # control: a user holding exactly R (or no role at all if R is empty) against identical state
                rig.restore_state(w)
                before = rig.snapshot(w)
                c_status, c_text = rig.request(R, method, url, params, build_body(route, rig, w))
                c_rpc = len(rig.rpc_calls)
                control_ok = 200 <= c_status < 300
                control_mutated = rig.snapshot(w) != before
                if c_rpc:
                    res.count("rpc_seen_on_control")
                if control_mutated:
                    res.count("state_change_seen_on_control")
                if c_status in REFUSED:
                    res.violation("C32.authorised_user_refused",
                                  f"{method} {route.path}: user holding exactly the required roles {sorted(R)} got "
                                  f"{c_status} {c_text[:200]}", case)

                # the request under test
                rig.restore_state(w)
                before = rig.snapshot(w)
                status, text = rig.request(U, method, url, params, build_body(route, rig, w))
                n_rpc = len(rig.rpc_calls)
                rpc_types = [t for _, t in rig.rpc_calls]
                mutated = rig.snapshot(w) != before
                rig.restore_state(w)
                n_status, n_text = rig.request(U, method, url_none, params, build_body(route, rig, w))
                rig.restore_state(w)
                leak = S.mark in text
                same_as_none = (status, _norm(text, all_ids)) == (n_status, _norm(n_text, all_ids))
                sample = {"route": f"{method} {route.path}", "R": sorted(R), "U": sorted(U), "world": wname,
                          "status": status, "control_status": c_status, "nonexistent_status": n_status,
                          "leak": leak, "rpc": n_rpc}
                res.case(key if R else None, sample=sample)

                if denied:
                    if control_ok:
                        res.count("denied_checks")
                    else:
                        res.count("denied_checks_without_successful_control")
                        inconclusive_routes[f"{method} {route.path} [{wname}]"] = f"authorised control answered {c_status}"
                    refused = status in REFUSED
                    if refused:
                        res.count("denied_refused_401_403")
                    elif same_as_none:
                        res.count("denied_same_as_nonexistent")
                        if 200 <= status < 300:
                            res.count("role_blind_2xx_without_unit_data")
                            role_blind.add(f"{method} {route.path}")
                    served_same = (status, text) == (c_status, c_text)
                    mech = classify(route, served_same)
                    if leak:
                        found = sorted(set(re.findall(re.escape(S.mark) + r"[A-Z0-9]+", text)))[:6]
                        res.violation(mech, f"{method} {route.path}: user roles {sorted(U)} vs required {sorted(R)} got "
                                      f"{status} with unit data {found}", case)
                    elif not refused and not same_as_none:
                        if 200 <= status < 300:
                            res.violation(mech, f"{method} {route.path}: user roles {sorted(U)} vs required {sorted(R)} "
                                          f"got {status} {text[:160]!r}, neither a refusal nor the answer for a "
                                          f"non-existent id ({n_status} {n_text[:120]!r})", case)
                        else:
                            # e.g. a 400/404/500 raised before the role check: not served, not a clean refusal either
                            res.count("denied_error_status_not_a_refusal_ambiguous")
                            ambiguous.add(f"{method} {route.path} -> {status}")
                    if n_rpc:
                        res.violation("C32.rpc_reached_engine_for_denied_user",
                                      f"{method} {route.path}: {rpc_types} reached the engine channel for user roles "
                                      f"{sorted(U)} vs required {sorted(R)} (status {status})", case)
                    if mutated:
                        res.violation("C32.denied_request_changed_unit_state",
                                      f"{method} {route.path}: method/active users/contributors of the unit changed for "
                                      f"user roles {sorted(U)} vs required {sorted(R)} (status {status})", case)
                else:
                    if status in REFUSED:
                        res.violation("C32.authorised_user_refused",
                                      f"{method} {route.path}: user roles {sorted(U)} vs required {sorted(R)} got "
                                      f"{status} {text[:200]}", case)
                    elif 200 <= status < 300:
                        res.count("authorised_ok")
                        if leak:
                            res.count("authorised_response_carries_unit_data")
                    else:
                        res.count("authorised_non_2xx")
                        inconclusive_routes[f"{method} {route.path} [{wname}]"] = f"authorised request answered {status}"

    # ------------------------------------------------------------------ listings (parameter-less GET routes)
    for route in plain_get:
        if only and ["GET", route.path] != list(only):
            continue
        case = {"spec": spec_case, "only": ["GET", route.path], "world": "all"}
        c_status, c_text = rig.request(R, "GET", route.path, build_params(route, rig))
        status, text = rig.request(U, "GET", route.path, build_params(route, rig))
        targets = {"online unit (active run)": [worlds[0][1]["engine_id"]],
                   "online unit (no active run)": [worlds[1][1]["engine_id"]],
                   "offline recent engine": [offline["engine_id"]],
                   "recent run": [worlds[0][1]["run_id"], worlds[1][1]["run_id"], offline["run_id"]]}
        is_listing = False
        for what, idl in targets.items():
            in_control = [i for i in idl if i in c_text]
            if not in_control:
                continue
            is_listing = True
            present = [i for i in in_control if i in text]
            res.case(("GET", route.path, tuple(rig.spec["R"]), tuple(rig.spec["U"]), what) if R else None,
                     sample={"route": "GET " + route.path, "listing_of": what, "R": sorted(R), "U": sorted(U),
                             "present": bool(present)})
            if denied:
                res.count("listing_checks")
                if present:
                    mech = ("C32.listing_includes_denied_run" if what == "recent run" else
                            "C32.listing_includes_denied_unit")
                    res.violation(mech, f"GET {route.path}: {what} {present} requiring {sorted(R)} listed for user "
                                  f"roles {sorted(U)}", case)
            else:
                if len(present) == len(in_control):
                    res.count("listing_authorised_ok")
                else:
                    res.violation("C32.listing_omits_authorised_unit_or_run",
                                  f"GET {route.path}: {what} requiring {sorted(R)} not listed for user roles {sorted(U)}",
                                  case)
        for did in (decoy["engine_id"], decoy["run_id"]):
            if did in c_text:
                res.count("open_unit_listing_checks")
                if did not in text:
                    res.violation("C32.listing_omits_open_unit_or_run",
                                  f"GET {route.path}: unit/run {did} requiring no roles not listed for user roles "
                                  f"{sorted(U)}", case)
        if denied and S.mark in text:
            found = sorted(set(re.findall(re.escape(S.mark) + r"[A-Z0-9]+", text)))[:6]
            mech = "C32.listing_includes_denied_unit" if is_listing else classify(route, (status, text) == (c_status, c_text))
            res.violation(mech, f"GET {route.path}: unit data {found} of a unit requiring {sorted(R)} returned to user "
                          f"roles {sorted(U)}", case)
        if denied and not is_listing:
            res.count("plain_get_without_unit_data")

    # ------------------------------------------------------------------ LSP websocket
    for route in ws_routes:
        if not route.path.startswith("/api/lsp"):
            continue
        if only and ["WS", route.path] != list(only):
            continue
        has_identity = any(has_dep(route, f) for f in (auth.user_roles, auth.user_id, auth.user_name))
        for wname, w in worlds:
            case = {"spec": spec_case, "only": ["WS", route.path], "world": wname}
            rig.cur_roles = set(U)
            conv = lsp_conversation(rig, w["engine_id"], S("TAGSTR"))
            rig.cur_roles = set(U)
            none = lsp_conversation(rig, fake["unit"], S("TAGSTR"))
            res.case(("WS", route.path, tuple(rig.spec["R"]), tuple(rig.spec["U"]), wname) if R else None,
                     sample={"route": "WS " + route.path, "R": sorted(R), "U": sorted(U), "world": wname,
                             "steps": sorted(conv)})
            if "_error" in conv or "_error" in none:
                res.count("ws_conversation_failed")
                inconclusive_routes[f"WS {route.path} [{wname}]"] = conv.get("_error") or none.get("_error")
                continue
            # what the unit's data looks like in the answers; the hover answers are checked for the value / docstring
            # sentinels only (the tag and command *names* are part of the text the client itself sent)
            leaks = []
            for step, wanted in (("completion_commands", [S.mark]), ("completion_tags", [S.mark]),
                                 ("hover_tag_value", [S("FORMATTED"), S("VALUE")]),
                                 ("hover_command_doc", [S("DOCSTRING")])):
                if any(x in conv.get(step, "") for x in wanted):
                    leaks.append(step)
            if denied:
                res.count("ws_denied_checks")
                if leaks:
                    mech = None if has_identity else "C32.lsp_websocket_has_no_caller_identity"
                    res.violation(mech, f"WS {route.path}: initialize(engineId of a unit requiring {sorted(R)}) by a "
                                  f"caller with roles {sorted(U)}: unit data returned by {leaks}", case)
                elif any(conv.get(k) != none.get(k) for k in conv if k not in ("initialize", "shutdown")):
                    res.count("ws_denied_differs_from_nonexistent_without_sentinel")
            else:
                if len(leaks) == 4:
                    res.count("ws_authorised_ok")
                else:
                    res.count("ws_authorised_incomplete")
                    inconclusive_routes[f"WS {route.path} [{wname}]"] = f"authorised conversation returned data only in {leaks}"
    # ------------------------------------------------------------------ the real identity -> roles mapping, order histories
    if not only or list(only)[0] == "REAL":
        _real_mapping(rig, res, spec_case, worlds, offline, decoy, plain_get, order, fake, list(all_ids), classify)
    # ------------------------------------------------------------------ two sessions of one engine id, roles changed
    # ------------------------------------------------------------------ engine life cycles, swept at every stage
    if not only or list(only)[0] == "LIFE":
        _life_cycles(rig, res, spec_case, plain_get, order, fake, classify, only)
    if not only or list(only)[0] == "SESSIONS":
        _two_sessions(rig, res, spec_case, plain_get, id_routes, fake, only)

    other_ws = sorted(r.path for r in ws_routes if not r.path.startswith("/api/lsp"))
    if other_ws:
        res.notes.append(f"websocket routes not exercised (engine rpc / frontend pubsub, no unit data in scope): {other_ws}")
    if role_blind:
        res.notes.append("routes answering 2xx to a denied user with a body identical to the answer for a non-existent "
                         f"id, i.e. without unit data (counted, not judged): {sorted(role_blind)}")
    if ambiguous:
        res.notes.append(f"denied requests answered with an error status other than 401/403 that differs from the "
                         f"non-existent-id answer (counted, not judged): {sorted(ambiguous)}")
    for k in sorted(inconclusive_routes):
        res.notes.append(f"inconclusive for route {k}: {inconclusive_routes[k]}")


def _euler_circuit(n: int, rnd: random.Random) -> list[int]:
    """closed walk over the complete digraph with self-loops on n nodes that uses every ordered pair (i, j) exactly once
    as consecutive elements (n*n + 1 visits); starts and ends at node 0"""
    adj = {i: list(range(n)) for i in range(n)}
    for i in adj:
        rnd.shuffle(adj[i])
    stack, out = [0], []
    while stack:
        v = stack[-1]
        if adj[v]:
            stack.append(adj[v].pop())
        else:
            out.append(stack.pop())
    return out[::-1]


DAEMON_ROLE = "Daemon"


def _expected_roles(kind: str, token_roles: set) -> set:
    """the identity -> roles mapping as /repo documents it (docs 'User Authorization (OIDC)': headless applications all
    have the role Daemon; routers/auth.py user_roles): the `roles` claim of the token, plus "Daemon" for an application
    token (idtyp=app). The mapping is a function of the token presented with the request, nothing else."""
    return set(token_roles) | ({DAEMON_ROLE} if kind == "app" else set())


def _real_mapping(rig: Rig, res: Result, spec_case, worlds, offline, decoy, plain_get, id_routes, fake, all_ids, classify):
    """Stratum with the REAL auth.user_roles / user_id / user_name in place and authentication enabled (see
    Rig.real_auth_enter). Identities = {person, application} x {U, R} and the application without roles (distinct ones); one ORDER history per
    shard: a closed walk in which every ordered pair of identities occurs as consecutive callers of the same process.
    At every step the caller sweeps every route with a unit / run id (all methods) of one target unit (the two worlds
    requiring R and a unit requiring the implicit application role, in turn) and every listing; each answer is judged
    by the property's oracle against the roles the caller's OWN token maps to."""
    S, R, U = rig.S, rig.R, rig.U
    Sd = Sent(rig.rnd, prefix="OPVDMN")
    dmn = rig.seed_engine({DAEMON_ROLE}, active_run=False, S=Sd)
    rig.save_state(dmn)
    all_ids = all_ids + [dmn["engine_id"], dmn["run_id"]]
    targets = [("active_run", worlds[0][1], set(R), S), ("no_active_run", worlds[1][1], set(R), S),
               ("daemon_role_unit", dmn, {DAEMON_ROLE}, Sd)]
    idents = []
    for kind, roles, tag in (("app", U, "U"), ("app", R, "R"), ("person", U, "U"), ("person", R, "R"),
                             ("app", set(), "none")):
        # (the application without any app role is the identity whose roles are the implicit one only; the person
        # without roles is person(U) of the shards with an empty U)
        if not any(i["kind"] == kind and i["roles"] == set(roles) for i in idents):
            idents.append({"kind": kind, "roles": set(roles), "name": f"{kind}({tag})", "idx": len(idents)})
    rig.real_auth_enter()
    try:
        for i in idents:
            i["token"] = rig.make_token(i["kind"], i["roles"], f"{rig.uid}-{i['idx']}")
            i["E"] = _expected_roles(i["kind"], i["roles"])
        ctl_tokens: dict = {}

        def control_token(required):
            ck = tuple(sorted(required))
            if ck not in ctl_tokens:
                ctl_tokens[ck] = rig.make_token("person", set(required), rig.uid)
            return ctl_tokens[ck]

        walk = _euler_circuit(len(idents), rig.rnd)
        control_cache: dict = {}
        none_cache: dict = {}
        listing_control: dict = {}
        served_before: dict = {}      # target name -> kinds of identities that were served on it earlier in this process
        prev = None
        for step, ii in enumerate(walk):
            me = idents[ii]
            tname, w, required, TS = targets[step % len(targets)]
            allowed = _access(required, me["E"])
            world = f"step{step}:{me['name']}:{tname}" + (f":after:{prev['name']}" if prev else "")
            case = {"spec": spec_case, "only": ["REAL"], "world": world}
            res.count("real_map_steps")
            if prev is not None:
                res.count(f"real_map_step_{me['kind']}_after_{prev['kind']}")
            earlier = set(served_before.get(tname, ()))
            served_now = False
            ids = {"unit": w["engine_id"], "run": w["run_id"]}
            for route in id_routes:
                for method in sorted(route.methods - {"HEAD", "OPTIONS"}):
                    url = build_url(route, ids, w["line_id"])
                    params = build_params(route, rig)
                    rig.restore_state(w)
                    before = rig.snapshot(w)
                    status, text = rig.request_token(me["token"], method, url, params, build_body(route, rig, w))
                    rpc_types = [t for _, t in rig.rpc_calls]
                    mutated = rig.snapshot(w) != before
                    rig.restore_state(w)
                    res.count("real_map_requests_judged")
                    res.case(("REAL", method, route.path, tuple(rig.spec["R"]), tuple(rig.spec["U"]), me["name"], tname,
                              prev["name"] if prev else None) if required else None,
                             sample={"route": f"{method} {route.path}", "identity": me["name"], "token_roles": sorted(me["roles"]),
                                     "mapped_roles": sorted(me["E"]), "required": sorted(required), "target": tname,
                                     "previous_caller": prev["name"] if prev else None, "status": status})
                    where = (f"{method} {route.path} [real auth mapping, step {step} of the order history, caller {me['name']} "
                             f"({me['kind']} token with roles claim {sorted(me['roles'])} -> roles {sorted(me['E'])}), "
                             f"previous caller {prev['name'] if prev else None}, unit {tname}]")
                    if allowed:
                        if status in REFUSED:
                            res.violation("C32.authorised_user_refused",
                                          f"{where}: required {sorted(required)} got {status} {text[:200]}", case)
                        elif 200 <= status < 300:
                            res.count("real_map_authorised_ok")
                            res.count(f"real_map_{me['kind']}_authorised_ok")
                            served_now = True
                            if tname == "daemon_role_unit" and me["kind"] == "app":
                                res.count("real_map_app_served_by_implicit_daemon_role")
                        else:
                            res.count("real_map_authorised_non_2xx")
                        continue
                    ck = (method, route.path, tname)
                    if ck not in control_cache:
                        control_cache[ck] = rig.request_token(control_token(required), method, url, params,
                                                              build_body(route, rig, w)) + (len(rig.rpc_calls),)
                        rig.restore_state(w)
                        res.count("real_map_control_requests")
                        res.count("real_map_requests_judged")
                        if control_cache[ck][0] in REFUSED:
                            res.violation("C32.authorised_user_refused",
                                          f"{where}: a person whose token carries exactly the required roles "
                                          f"{sorted(required)} got {control_cache[ck][0]} {control_cache[ck][1][:200]}", case)
                    c_status, c_text, c_rpc = control_cache[ck]
                    nk = (method, route.path, ii)
                    if nk not in none_cache:
                        none_cache[nk] = rig.request_token(me["token"], method, build_url(route, fake, w["line_id"]), params,
                                                           build_body(route, rig, w))
                        rig.restore_state(w)
                    n_status, n_text = none_cache[nk]
                    names = []
                    if 200 <= c_status < 300:
                        names.append("real_map_denied_checks")
                        names.append(f"real_map_{me['kind']}_denied_checks")
                        if not earlier:
                            names.append(f"real_map_{me['kind']}_denied_before_any_served_caller_checks")
                        for k in sorted(earlier):
                            names.append(f"real_map_{me['kind']}_after_privileged_{k}_denied_checks")
                        if prev is not None and _access(required, prev["E"]):
                            names.append(f"real_map_{me['kind']}_right_after_privileged_{prev['kind']}_denied_checks")
                        if tname == "daemon_role_unit":
                            names.append("real_map_person_without_daemon_role_denied_checks")
                    else:
                        names.append("real_map_denied_checks_without_successful_control")
                    for nm in names:
                        res.count(nm)
                    leak = TS.mark in text
                    refused = status in REFUSED
                    same_as_none = (status, _norm(text, all_ids)) == (n_status, _norm(n_text, all_ids))
                    if refused:
                        res.count("real_map_denied_refused_401_403")
                    elif same_as_none:
                        res.count("real_map_denied_same_as_nonexistent")
                    mech = classify(route, (status, text) == (c_status, c_text))
                    if leak:
                        found = sorted(set(re.findall(re.escape(TS.mark) + r"[A-Z0-9]+", text)))[:6]
                        res.violation(mech, f"{where}: required {sorted(required)} got {status} with unit data {found}", case)
                    elif not refused and not same_as_none:
                        if 200 <= status < 300:
                            res.violation(mech, f"{where}: required {sorted(required)} got {status} {text[:160]!r}, neither a "
                                          f"refusal nor the answer for a non-existent id ({n_status} {n_text[:120]!r})", case)
                        else:
                            res.count("real_map_denied_error_status_not_a_refusal_ambiguous")
                    if rpc_types:
                        res.violation("C32.rpc_reached_engine_for_denied_user",
                                      f"{where}: {rpc_types} reached the engine channel, required {sorted(required)} "
                                      f"(status {status})", case)
                    if mutated:
                        res.violation("C32.denied_request_changed_unit_state",
                                      f"{where}: method/active users/contributors of the unit changed, required "
                                      f"{sorted(required)} (status {status})", case)

            # listings, judged for every unit / run of the shard against the caller's own mapped roles
            subjects = [("online unit", [worlds[0][1]["engine_id"], worlds[1][1]["engine_id"]], set(R)),
                        ("offline recent engine", [offline["engine_id"]], set(R)),
                        ("recent run", [worlds[0][1]["run_id"], worlds[1][1]["run_id"], offline["run_id"]], set(R)),
                        ("unit requiring the implicit application role", [dmn["engine_id"]], {DAEMON_ROLE}),
                        ("recent run requiring the implicit application role", [dmn["run_id"]], {DAEMON_ROLE}),
                        ("open unit / run", [decoy["engine_id"], decoy["run_id"]], set())]
            for route in plain_get:
                params = build_params(route, rig)
                status, text = rig.request_token(me["token"], "GET", route.path, params)
                res.count("real_map_requests_judged")
                for what, idl, required in subjects:
                    lk = (route.path, tuple(sorted(required)))
                    if lk not in listing_control:
                        listing_control[lk] = rig.request_token(control_token(required), "GET", route.path, params)[1]
                    in_control = [i for i in idl if i in listing_control[lk]]
                    if not in_control:
                        continue
                    present = [i for i in in_control if i in text]
                    ok = _access(required, me["E"])
                    lwhere = (f"GET {route.path} [real auth mapping, step {step}, caller {me['name']} ({me['kind']} token with "
                              f"roles claim {sorted(me['roles'])} -> roles {sorted(me['E'])}), previous caller "
                              f"{prev['name'] if prev else None}]")
                    if not ok:
                        res.count("real_map_listing_denied_checks")
                        if me["kind"] == "app" and "app" in earlier | ({prev["kind"]} if prev else set()):
                            res.count("real_map_listing_app_after_app_denied_checks")
                        if present:
                            res.violation("C32.listing_includes_denied_run" if "run" in what else
                                          "C32.listing_includes_denied_unit",
                                          f"{lwhere}: {what} {present} requiring {sorted(required)} is listed", case)
                    elif len(present) == len(in_control):
                        res.count("real_map_listing_authorised_listed")
                    else:
                        res.violation("C32.listing_omits_open_unit_or_run" if not required else
                                      "C32.listing_omits_authorised_unit_or_run",
                                      f"{lwhere}: {what} requiring {sorted(required)} is not listed", case)
            if served_now:
                served_before.setdefault(tname, set()).add(me["kind"])
            prev = me
    finally:
        rig.real_auth_exit()
    # what the later strata need: the extra unit goes offline again (it stays a recent engine requiring a role nobody of
    # the role universe holds, so it is invisible to them)
    rig.client.portal.call(rig.srv.dispatcher.on_client_disconnect, dmn["channel"])


def _access(required: set, user: set) -> bool:
    return not required or bool(required & user)


# Engine life-cycle histories. One column per global step; every engine of a history performs its event of the step,
# then (step LIFE_RESTART_STEP only) the aggregator is restarted, then every engine that had an event is swept.
#   open       register + websocket + UodInfoMsg + first steady-state round (session 1 requires R0, session 2 the shard's R)
#   start/stop RunStartedMsg / RunStoppedMsg (+ steady-state rounds)
#   disconnect the websocket of the engine drops
#   restart    the engine is still connected (and possibly in a run) when the aggregator goes down
LIFE_HISTORIES = {
    "midrun_disconnect":  ["open", "start", None,   "disconnect", "open", "stop",  None,   "disconnect"],
    "midrun_restart":     ["open", "start", None,   "restart",    "open", "stop",  None,   "disconnect"],
    "between_disconnect": ["open", "start", "stop", "disconnect", "open", "start", "stop", "disconnect"],
    "between_restart":    ["open", "start", "stop", "restart",    "open", "start", "stop", "disconnect"],
    "idle_disconnect":    ["open", None,    None,   "disconnect", "open", "start", "stop", "disconnect"],
}
LIFE_RESTART_STEP = 3
LIFE_FULL_R0 = ("midrun_disconnect", "midrun_restart")


def _items(text: str) -> list[str]:
    """the elements of a JSON list answer, each re-serialised; any other answer is one item"""
    try:
        v = json.loads(text)
    except ValueError:
        return [text]
    if isinstance(v, list):
        return [json.dumps(x, sort_keys=True) for x in v]
    return [text]


def _life_cycles(rig: Rig, res: Result, spec_case, plain_get, id_routes, fake, classify, only=None):
    """Engines live through LIFE_HISTORIES x every role set R0 of the universe for the first session (the second
    session requires the shard's R, so 'unchanged' is the case R0 == R). After every step every engine whose state
    changed is swept: all routes with a unit / run id and all listings, as the shard's user U, judged against the roles
    of the latest UodInfoMsg of the unit resp. the roles the unit required when the run stopped."""
    U, R1 = rig.U, rig.R
    S3 = Sent(rig.rnd, prefix="OPVLIFE")
    only_path = list(only)[1] if only and len(list(only)) > 1 else None
    engines = []
    universe = rig.spec["universe"]
    for hist, events in LIFE_HISTORIES.items():
        # a run in progress across the sessions: every R0; otherwise roles unchanged (R0 == R) and the complement of R
        # (the full R0 x R x U cube without runs is what the two-session scenarios enumerate)
        r0s = _subsets(universe) if hist in LIFE_FULL_R0 else [list(rig.spec["R"]),
                                                              [r for r in universe if r not in rig.spec["R"]]]
        for r0 in r0s:
            key = f"c{len(engines)}e"
            engines.append({"key": key, "hist": hist, "events": events, "r0": r0,
                            "R0": {rig.role_name[r] for r in r0}, "eid": None, "ch": None, "session": 0,
                            "online": False, "live_run": None, "resumed": False, "runs": [], "unit_roles": set(),
                            "trace": [], "label": "new", "n_runs": 0, "ended_by": None})
            res.count("life_engines")
    n_steps = len(next(iter(LIFE_HISTORIES.values())))
    none_cache: dict = {}
    control_cache: dict = {}
    all_ids = [fake["unit"], fake["run"]]

    def apply(e, ev, step):
        key, t = e["key"], 10000.0 * (step + 1)
        if ev == "open":
            e["session"] += 1
            roles = e["R0"] if e["session"] == 1 else R1
            e["eid"], e["ch"] = rig.life_open(key, roles, S3, e["session"], e["live_run"])
            if e["eid"] not in all_ids:
                all_ids.append(e["eid"])
            e["unit_roles"], e["online"] = set(roles), True
            e["resumed"] = e["live_run"] is not None
            e["label"] = f"s{e['session']}_" + ("resumed_run" if e["resumed"] else "idle") + \
                (f"_after_{e['ended_by']}" if e["session"] > 1 else "")
            e["trace"].append((ev, tuple(sorted(roles))))
        elif ev == "start":
            e["n_runs"] += 1
            e["live_run"] = f"opvliferun{key}n{e['n_runs']}x{S3.tok}"
            all_ids.append(e["live_run"])
            rig.life_run_started(e["eid"], key, S3, e["live_run"], t)
            e["resumed"] = False
            e["label"] = f"s{e['session']}_running"
            e["trace"].append((ev,))
        elif ev == "stop":
            rig.life_run_stopped(e["eid"], key, S3, e["live_run"], t)
            # a recent run requires what its unit required when the run ended
            # (if the roles changed between the session in which it started and the one in which it ended, the property
            # text does not say which of the two sets it requires: only users for whom both agree are judged)
            e["runs"].append({"run_id": e["live_run"], "roles": set(e["unit_roles"]), "resumed": e["resumed"],
                              "alt": set(e["R0"]) if e["resumed"] and e["R0"] != e["unit_roles"] else None})
            e["label"] = f"s{e['session']}_stopped" + ("_resumed_run" if e["resumed"] else "")
            e["live_run"], e["resumed"] = None, False
            e["trace"].append((ev,))
        elif ev in ("disconnect", "restart"):
            if ev == "disconnect":
                rig.close_session(e["eid"], e["ch"])
            e["online"], e["ended_by"] = False, ev
            e["label"] = f"off{e['session']}_" + ("midrun" if e["live_run"] else "idle") + ("_restart" if ev == "restart" else "")
            e["trace"].append((ev,))

    def sweep(e):
        label, eid = e["label"], e["eid"]
        w = {"engine_id": eid}
        for route in id_routes:
            if only_path and route.path != only_path:
                continue
            is_run = any(ID_PARAM.search(p.name) and ID_PARAM.search(p.name).group(1).lower() == "run"
                         for p in route.dependant.path_params)
            if is_run:
                # every stored run of the engine, and the run in progress (not a recent run yet: nobody is served)
                subjects = []
                for r in e["runs"]:
                    if r["alt"] is not None and _access(r["alt"], U) != _access(r["roles"], U):
                        res.count("life_run_spanning_a_role_change_not_judged")
                        continue
                    subjects.append((r["run_id"], r["roles"], "run_resumed" if r["resumed"] else "run"))
                if e["live_run"]:
                    subjects.append((e["live_run"], e["unit_roles"], "run_in_progress"))
            else:
                subjects = [(None, e["unit_roles"], "unit")]
            for method in sorted(route.methods - {"HEAD", "OPTIONS"}):
                if not is_run and not e["online"] and method != "GET":
                    continue      # an offline unit has no channel and no state a request could change; reads are swept
                for run_id, required, kind in subjects:
                    ids = {"unit": eid, "run": run_id or fake["run"]}
                    url = build_url(route, ids, f"opvlifeline{e['key']}")
                    params = build_params(route, rig)
                    allowed = _access(required, U)
                    cname = f"life_{label}_{kind}"
                    case = {"spec": spec_case, "only": ["LIFE", route.path], "world": f"{e['hist']}:{label}"}
                    before = rig.snapshot(w) if e["online"] else None
                    rig.rpc_calls.clear()
                    status, text = rig.request(U, method, url, params, build_body(route, rig, w))
                    rpc_types = [t for _, t in rig.rpc_calls]
                    mutated = e["online"] and rig.snapshot(w) != before
                    res.case(("LIFE", method, route.path, e["hist"], tuple(e["r0"]), tuple(rig.spec["R"]),
                              tuple(rig.spec["U"]), label, kind) if required else None,
                             sample={"route": f"{method} {route.path}", "history": e["hist"], "stage": label,
                                     "subject": kind, "R0": sorted(e["R0"]), "R": sorted(R1), "required": sorted(required),
                                     "U": sorted(U), "status": status})
                    where = (f"{method} {route.path} [life cycle {e['hist']}, stage {label}, {kind} "
                             f"{run_id or eid}; session roles {sorted(e['R0'])} -> {sorted(R1)}]")
                    if allowed:
                        if status in REFUSED:
                            res.violation("C32.authorised_user_refused",
                                          f"{where}: user roles {sorted(U)} vs required {sorted(required)} got {status} "
                                          f"{text[:200]}", case)
                        elif 200 <= status < 300:
                            res.count(cname + "_authorised_ok")
                            if rpc_types:
                                res.count(cname + "_authorised_rpc_seen")
                        else:
                            res.count(cname + "_authorised_non_2xx")
                        continue
                    # denied: control by a user holding exactly the required roles. It proves that the request is well
                    # formed for a unit / run in this state, so one control per (route, stage, subject kind,
                    # required roles) is made, against the first engine swept in that state (the served half of the
                    # property is judged per engine by the shards whose U holds a role)
                    ck = (method, route.path, label, kind, tuple(sorted(required)))
                    if ck not in control_cache or not has_dep(route, rig.auth.user_roles):
                        # (a route without the roles dependency is classified by comparing with the answer the
                        # authorised user gets for the very same unit: always a control of its own)
                        rig.rpc_calls.clear()
                        control_cache[ck] = rig.request(required, method, url, params, build_body(route, rig, w)) + \
                            (len(rig.rpc_calls),)
                        rig.rpc_calls.clear()
                        res.count("life_control_requests")
                    c_status, c_text, c_rpc = control_cache[ck]
                    if c_rpc:
                        res.count(cname + "_rpc_seen_on_control")
                    nk = (method, route.path)
                    if nk not in none_cache:
                        none_cache[nk] = rig.request(U, method, build_url(route, fake, "opvline"), params,
                                                     build_body(route, rig, None))
                    n_status, n_text = none_cache[nk]
                    if c_status in REFUSED:
                        res.violation("C32.authorised_user_refused",
                                      f"{where}: user holding exactly the required roles {sorted(required)} got {c_status} "
                                      f"{c_text[:200]}", case)
                    if 200 <= c_status < 300:
                        res.count(cname + "_denied_checks")
                    else:
                        res.count(cname + "_denied_checks_without_successful_control")
                    leak = S3.mark in text
                    refused = status in REFUSED
                    same_as_none = (status, _norm(text, all_ids)) == (n_status, _norm(n_text, all_ids))
                    if refused:
                        res.count("life_denied_refused_401_403")
                    elif same_as_none:
                        res.count("life_denied_same_as_nonexistent")
                    mech = classify(route, (status, text) == (c_status, c_text))
                    if leak:
                        found = sorted(set(re.findall(re.escape(S3.mark) + r"[A-Za-z0-9]+", text)))[:6]
                        res.violation(mech, f"{where}: user roles {sorted(U)} vs required {sorted(required)} got {status} "
                                      f"with data {found}", case)
                    elif not refused and not same_as_none:
                        if 200 <= status < 300:
                            res.violation(mech, f"{where}: user roles {sorted(U)} vs required {sorted(required)} got "
                                          f"{status} {text[:160]!r}, neither a refusal nor the answer for a non-existent "
                                          f"id ({n_status} {n_text[:120]!r})", case)
                        else:
                            res.count("life_denied_error_status_not_a_refusal_ambiguous")
                    if rpc_types:
                        res.violation("C32.rpc_reached_engine_for_denied_user",
                                      f"{where}: {rpc_types} reached the engine channel for user roles {sorted(U)} vs "
                                      f"required {sorted(required)} (status {status})", case)
                    if mutated:
                        res.violation("C32.denied_request_changed_unit_state",
                                      f"{where}: method/active users/contributors of the unit changed for user roles "
                                      f"{sorted(U)} vs required {sorted(required)} (status {status})", case)

    def listings(step):
        subjects = []          # (id, required roles, kind, label, engine)
        for e in engines:
            if e["eid"] is None:
                continue
            subjects.append((e["eid"], e["unit_roles"], "unit", e["label"], e))
            for r in e["runs"]:
                if r["alt"] is not None and _access(r["alt"], U) != _access(r["roles"], U):
                    res.count("life_run_spanning_a_role_change_not_judged")
                    continue
                subjects.append((r["run_id"], r["roles"], "run", "run_resumed" if r["resumed"] else "run", e))
        run_ids = [r["run_id"] for e in engines for r in e["runs"]]

        def about(item: str, sid: str, kind: str) -> bool:
            if sid not in item:
                return False
            # an entry that names a stored run is an entry of that run (it also carries the id of the run's unit)
            return kind == "run" or not any(r in item for r in run_ids)

        for route in plain_get:
            if only_path and route.path != only_path:
                continue
            params = build_params(route, rig)
            status, text = rig.request(U, "GET", route.path, params)
            u_items = _items(text)
            controls: dict = {}
            case = {"spec": spec_case, "only": ["LIFE", route.path], "world": f"step{step}"}
            for sid, required, kind, label, e in subjects:
                ck = tuple(sorted(required))
                if ck not in controls:
                    controls[ck] = _items(rig.request(required, "GET", route.path, params)[1])
                if not any(about(it, sid, kind) for it in controls[ck]):
                    continue          # the route does not list this unit / run for a user holding its roles
                present = [it for it in u_items if about(it, sid, kind)]
                allowed = _access(required, U)
                res.case(("LIFE", "GET", route.path, e["hist"], tuple(e["r0"]), tuple(rig.spec["R"]), tuple(rig.spec["U"]),
                          label, kind, step) if required else None,
                         sample={"route": "GET " + route.path, "history": e["hist"], "stage": label, "listing_of": kind,
                                 "required": sorted(required), "U": sorted(U), "listed": bool(present)})
                cname = f"life_listing_{kind}_{label}" if kind == "unit" else f"life_listing_{label}"
                where = (f"GET {route.path} [life cycle {e['hist']}, step {step}, {kind} {sid} in state {label}; session "
                         f"roles {sorted(e['R0'])} -> {sorted(R1)}]")
                if allowed:
                    if present:
                        res.count(cname + "_authorised_listed")
                    else:
                        res.violation("C32.listing_omits_authorised_unit_or_run",
                                      f"{where}: requires {sorted(required)}, listed for a user holding these roles but "
                                      f"not for user roles {sorted(U)}", case)
                else:
                    res.count(cname + "_denied_checks")
                    if present:
                        res.violation("C32.listing_includes_denied_run" if kind == "run" else
                                      "C32.listing_includes_denied_unit",
                                      f"{where}: requires {sorted(required)} but is returned to user roles {sorted(U)}: "
                                      f"{present[0][:200]}", case)
            # nothing of an engine the user is denied for altogether (unit and all of its runs) may appear anywhere
            for e in engines:
                if e["eid"] is None or _access(e["unit_roles"], U) or \
                        any(_access(r["roles"], U) or (r["alt"] is not None and _access(r["alt"], U)) for r in e["runs"]):
                    continue
                marks = [e["eid"], S3(f"LOC{e['key']}S"), S3(f"AUTHOR{e['key']}S"), S3(f"HW{e['key']}")]
                found = [m for m in marks if m in text]
                if found:
                    res.violation("C32.listing_includes_denied_unit",
                                  f"GET {route.path} [life cycle {e['hist']}, step {step}, state {e['label']}]: data of "
                                  f"unit {e['eid']} (requires {sorted(e['unit_roles'])}) returned to user roles "
                                  f"{sorted(U)}: {found[:3]}", case)

    for step in range(n_steps):
        touched = []
        for e in engines:
            ev = e["events"][step]
            if ev:
                apply(e, ev, step)
                touched.append(e)
        if step == LIFE_RESTART_STEP:
            rig.restart_aggregator()
            if rig.srv.aggregator.get_all_registered_engine_data():
                raise RuntimeError("rig: emulated restart left engine data behind")
            res.count("life_restarts")
        swept = set()
        for e in touched:
            # engines whose histories (events and role sets) are identical so far are in the same state: one is swept
            tk = tuple(e["trace"])
            if tk in swept:
                res.count("life_sweeps_skipped_same_history_prefix")
                continue
            swept.add(tk)
            res.count("life_sweeps")
            sweep(e)
        listings(step)


def _two_sessions(rig: Rig, res: Result, spec_case, plain_get, id_routes, fake, only=None):
    """Runs last in the shard: the aggregator restart at the end takes every online unit down."""
    U, R1 = rig.U, rig.R
    S2 = Sent(rig.rnd, prefix="OPVTWO")
    universe = rig.spec["universe"]
    engines = []
    for i, r0 in enumerate(_subsets(universe)):
        for ending in ("disconnect", "shutdown"):
            key = f"k{len(engines)}e"
            engines.append({"key": key, "R0": {rig.role_name[r] for r in r0}, "r0": r0, "ending": ending,
                            "eid": None, "ch": None})
    all_ids = [fake["unit"], fake["run"]]

    def marks(e):
        return [e["eid"], S2(f"LOC{e['key']}S"), S2(f"AUTHOR{e['key']}S"), S2(f"HW{e['key']}")]

    def judge_listings(point: str, latest_of, online: bool):
        """every parameter-less GET route, one request as U, one control request per distinct latest role set"""
        for route in plain_get:
            if only and list(only)[1:2] != [route.path]:
                continue
            params = build_params(route, rig)
            status, text = rig.request(U, "GET", route.path, params)
            controls: dict = {}
            for e in engines:
                latest = latest_of(e)
                ck = tuple(sorted(latest))
                if ck not in controls:
                    controls[ck] = rig.request(latest, "GET", route.path, params)
                c_status, c_text = controls[ck]
                if e["eid"] not in c_text:
                    continue               # the route does not list this unit for an authorised user: not a listing of it
                allowed = _access(latest, U)
                earlier = e["R0"] if point in ("online_2", "offline_2") else None
                changed = earlier is not None and earlier != latest
                present = [m for m in marks(e) if m in text]
                case = {"spec": spec_case, "only": ["SESSIONS", route.path], "world": point}
                res.case(("GET", route.path, tuple(e["r0"]), tuple(rig.spec["R"]), tuple(rig.spec["U"]), point, e["ending"])
                         if changed else None,
                         sample={"route": "GET " + route.path, "point": point, "R0": sorted(e["R0"]), "R1": sorted(R1),
                                 "latest": sorted(latest), "U": sorted(U), "ending": e["ending"], "listed": bool(present)})
                kind = "online" if online else "offline"
                if point == "offline_2" and e["ending"] == "shutdown":
                    res.count("two_session_after_shutdown_checks")
                if not allowed:
                    res.count(f"two_session_{kind}_denied_checks")
                    stale_allows = changed and _access(earlier, U)
                    if stale_allows and not online:
                        res.count("two_session_tightened_offline_denied_checks")
                    if present:
                        mech = "C32.listing_includes_denied_unit"
                        if stale_allows and not online:
                            # causal shape: offline, the roles changed between the sessions, the roles of the EARLIER
                            # session admit the user, those of the latest do not, and the unit is listed
                            mech = "C32.offline_listing_filtered_by_roles_of_earlier_session"
                        res.violation(mech, f"GET {route.path} [{point}, ending={e['ending']}]: {kind} unit {e['eid']} "
                                      f"requires {sorted(latest)} since its latest session (earlier session: "
                                      f"{sorted(e['R0'])}) but is returned to user roles {sorted(U)}: {present[:3]}", case)
                else:
                    stale_denies = changed and not _access(earlier, U)
                    if e["eid"] in text:
                        res.count(f"two_session_{kind}_authorised_listed")
                        if stale_denies and not online:
                            res.count("two_session_relaxed_offline_authorised_listed")
                    else:
                        mech = "C32.listing_omits_authorised_unit_or_run"
                        if stale_denies and not online:
                            mech = "C32.offline_listing_hides_unit_by_roles_of_earlier_session"
                        res.violation(mech, f"GET {route.path} [{point}, ending={e['ending']}]: {kind} unit {e['eid']} "
                                      f"requires {sorted(latest)} since its latest session (earlier session: "
                                      f"{sorted(e['R0'])}) and is listed for roles {sorted(latest)} but not for user "
                                      f"roles {sorted(U)}", case)

    # session 1
    for e in engines:
        e["eid"], e["ch"] = rig.open_session(e["key"], e["R0"], S2, 1)
        all_ids.append(e["eid"])
        res.count("two_session_engines")
    judge_listings("online_1", lambda e: e["R0"], online=True)
    for e in engines:
        rig.close_session(e["eid"], e["ch"])
    judge_listings("offline_1", lambda e: e["R0"], online=False)
    # session 2: same engine ids, the UOD now requires R1
    for e in engines:
        eid, e["ch"] = rig.open_session(e["key"], R1, S2, 2)
        if eid != e["eid"]:
            raise RuntimeError("rig: second session got another engine id")
    judge_listings("online_2", lambda e: R1, online=True)
    for e in engines:
        if e["ending"] == "disconnect":
            rig.close_session(e["eid"], e["ch"])
    rig.restart_aggregator()
    if rig.srv.aggregator.get_all_registered_engine_data():
        raise RuntimeError("rig: emulated restart left engine data behind")
    judge_listings("offline_2", lambda e: R1, online=False)

    # every GET route with a unit id, for the offline units (run ids: a non-existent one)
    for route in id_routes:
        if "GET" not in route.methods or (only and list(only)[1:2] != [route.path]):
            continue
        params = build_params(route, rig)
        n_status, n_text = rig.request(U, "GET", build_url(route, fake, "opvline"), params)
        for e in engines:
            url = build_url(route, {"unit": e["eid"], "run": fake["run"]}, "opvline")
            status, text = rig.request(U, "GET", url, params)
            res.count("two_session_offline_id_route_requests")
            case = {"spec": spec_case, "only": ["SESSIONS", route.path], "world": "offline_2"}
            same = (status, _norm(text, all_ids)) == (n_status, _norm(n_text, all_ids))
            if same:
                res.count("two_session_offline_id_route_same_as_nonexistent")
            if _access(R1, U):
                continue
            leaked = [m for m in marks(e)[1:] if m in text]
            if leaked or (200 <= status < 300 and not same):
                res.violation("C32.offline_unit_route_served_denied_user",
                              f"GET {route.path}: offline unit {e['eid']} requires {sorted(R1)} since its latest session "
                              f"(earlier: {sorted(e['R0'])}); user roles {sorted(U)} got {status} {text[:160]!r} "
                              f"(non-existent id: {n_status})", case)
            elif status in REFUSED:
                res.count("two_session_offline_id_route_refused")


def replay(case):
    spec = dict(case["spec"])
    spec["only"] = case.get("only")
    return run_shard(spec)
