"""C41 - Macros run their latest definition once per call and never recurse.

Generated macro-only methods on the engine rig; a wrapper around PInterpreter.visit_CallMacroNode keeps the invocation
stack (per interpreter path, with the causal chain of Watch/Alarm registrations), a small reference interpreter of the
macro sub-language gives the expected Mark sequence, an own call-graph analysis over ALL descendants classifies calls
as recursive (see DESIGN.md C41).
"""
from __future__ import annotations

import random

from opv.core import Result

ID = "C41"
LEVEL = "exploration"
TECHNIQUE = ("runtime monitoring: invocation-stack wrapper on visit_CallMacroNode + reference interpreter of the macro "
             "sub-language + own call-graph analysis, on generated methods")
RULE = ("seeded generator restricted to macros: 1-4 `Macro:` definitions over the names A,B,C,H (redefinitions of one name), "
        "calls before/after (re)definition, nested and repeated calls, Blocks in bodies; 'cycle' programs plant a call "
        "cycle of length 1-3 whose closing call is the first or a later child, written directly or inside a Block / Watch "
        "/ Alarm body (condition true or never true); optional single live edit (change/remove/add body line, remove or "
        "rename the macro) of a called or not yet called definition at a random tick. Run to quiescence on the virtual "
        "clock. distinct = shape hash of method text + edit kind; non-trivial = at least two definitions or a planted "
        "cycle or an edit, and at least one macro call observed by the wrapper")
ASSUMPTIONS = [
    "'most recently defined' = the textually last `Macro: name` line whose node has started executing when the call starts "
    "(definitions are generated at top level only, so execution order = text order)",
    "'fails instead of recursing' is judged on what every reading implies: a macro must never be entered while it is "
    "already on the invocation stack, where the stack of a Watch/Alarm body continues the stack that was active when that "
    "Watch/Alarm was registered (a macro whose own Watch calls it again calls itself indirectly); and a call that the "
    "harness's call graph (all descendants, through Blocks/Watches/Alarms, definitions as registered at call time) "
    "classifies as recursive must not leave the run stalled: if it was not rejected it has to complete or fail. A "
    "statically recursive call through a Watch/Alarm whose condition never becomes true completes without any re-entry: "
    "counted, not judged",
    "a rejected recursive call must show as failed (node.failed, Method Status Error) within 3 ticks of its start",
    "'started macro may not be edited or removed' is checked for exactly one edit per run, made while the run is "
    "started and not in error state; edits of definitions that have not started are counted, not judged; after an "
    "accepted edit nothing further is judged (live edit restarts the method: known finding of C01)",
    "the same macro running concurrently on the main path and in an interrupt is kept out of the generator (C02 finding)",
    "observation: class-level wrappers on PInterpreter.visit_CallMacroNode/_visit_children/_register_interrupt and the "
    "engine rig's node-state descriptors, installed from the harness; wrappers delegate and never alter results",
]
REQUIRED = {"call_events": 3500, "body_definition_checks": 3000, "body_order_checks": 1900, "marks_oracle_checks": 600,
            "recursive_calls_static": 1200, "recursive_rejected_at_check": 200, "redefinition_calls": 700,
            "edit_of_started_macro_checks": 100, "wrapper_hits": 3500}

NAMES = ("A", "B", "C")
TRUE_CONDS = ("Run Counter >= 0", "FT01 > 3 L/h")
FALSE_CONDS = ("FT01 < 3 L/h", "X = 4")


def plan(tier, seed):
    n = 3000 if tier == "quick" else 60000
    shards = 16 if tier == "quick" else 48
    per = n // shards
    return [{"seed": seed * 1000003 + i, "n": per} for i in range(shards)]


# ---------------------------------------------------------------------------------------------------------------
# generator: own tree (independent of the repository's AST). stmt = dict(kind, name/label/cond, body, line)
class G:
    def __init__(self, rnd: random.Random):
        self.r = rnd
        self.n = 0
        self.nb = 0

    def mark(self):
        self.n += 1
        return {"kind": "mark", "label": f"m{self.n}"}

    def call(self, name):
        return {"kind": "call", "name": name}

    def block(self, body):
        self.nb += 1
        return {"kind": "block", "name": f"b{self.nb}", "body": body + [{"kind": "endblock"}]}

    def wrap(self, how, stmt, cond_true=True):
        if how == "none":
            return stmt
        if how == "block":
            pre = [self.mark()] if self.r.random() < 0.4 else []
            return self.block(pre + [stmt])
        cond = self.r.choice(TRUE_CONDS if cond_true else FALSE_CONDS)
        return {"kind": how, "cond": cond, "body": [stmt]}

    def plain_body(self, callable_names, maxlen=4):
        r = self.r
        out = []
        for _ in range(r.randint(1, maxlen)):
            c = r.random()
            if c < 0.5 or not callable_names:
                out.append(self.mark())
            elif c < 0.85:
                out.append(self.call(r.choice(callable_names)))
            else:
                inner = [self.mark()]
                if callable_names and r.random() < 0.6:
                    inner.append(self.call(r.choice(callable_names)))
                if r.random() < 0.4:
                    inner.append(self.mark())
                out.append(self.block(inner))
        return out

    def plain(self):
        """1-4 definitions (names repeat => redefinition), calls anywhere; cycles may occur by chance."""
        r = self.r
        prog = []
        ndefs = r.randint(1, 4)
        pool = list(NAMES[:r.randint(1, 3)])
        defined = []
        slots = ["def"] * ndefs + ["call"] * r.randint(2, 5) + ["mark"] * r.randint(1, 3)
        r.shuffle(slots)
        if slots[0] == "call" and r.random() < 0.8:
            i = slots.index("def")
            slots[0], slots[i] = slots[i], slots[0]
        for s in slots:
            if s == "mark":
                prog.append(self.mark())
            elif s == "def":
                name = r.choice(pool)
                # bodies mostly call macros defined so far (no cycle); sometimes any name from the pool
                cands = [n for n in defined if n != name] if r.random() < 0.8 else list(pool)
                prog.append({"kind": "macro", "name": name, "body": self.plain_body(cands)})
                defined.append(name)
            else:
                if defined and r.random() < 0.9:
                    prog.append(self.call(r.choice(defined)))
                else:
                    prog.append(self.call(r.choice(pool)))
        prog.append(self.mark())
        return prog, {"mode": "plain"}

    def cycle(self):
        r = self.r
        n = r.choice([1, 1, 2, 2, 3])
        cyc = list(NAMES[:n])
        prog = []
        helper = r.random() < 0.6
        if helper:
            prog.append({"kind": "macro", "name": "H", "body": [self.mark()]})
        how = r.choice(["none", "none", "block", "watch", "alarm", "block"])
        cond_true = r.random() < 0.8
        wrapped_at = r.randrange(n)            # which member of the cycle carries the wrapper
        first = r.random() < 0.45
        pre_kind = r.choice(["mark", "helper"]) if helper else "mark"
        for i, name in enumerate(cyc):
            nxt = cyc[(i + 1) % n]
            closing = self.call(nxt)
            body = []
            member_first = first if i == wrapped_at else (r.random() < 0.6)
            if not member_first:
                body.append(self.call("H") if (pre_kind == "helper" and i == wrapped_at) else self.mark())
            body.append(self.wrap(how if i == wrapped_at else "none", closing, cond_true))
            if r.random() < 0.5:
                body.append(self.mark())
            prog.append({"kind": "macro", "name": name, "body": body})
        if r.random() < 0.3:
            # a redefinition that breaks or keeps the cycle
            nm = r.choice(cyc)
            prog.insert(r.randint(0, len(prog)), {"kind": "macro", "name": nm, "body": [self.mark()]})
        prog.insert(r.randint(0, len(prog)), self.mark())
        prog.append(self.mark())
        prog.append(self.call(r.choice(cyc)))
        prog.append(self.mark())
        return prog, {"mode": "cycle", "len": n, "wrap": how, "first": first, "cond_true": cond_true,
                      "pre": pre_kind if not first else None}


def render(prog):
    """-> (text, flat list of statements with 'line' set, top-level order preserved)."""
    lines = ["Base: s"]
    flat = []

    def emit(stmts, ind, parent):
        for s in stmts:
            s["line"] = len(lines)
            s["parent"] = parent
            flat.append(s)
            k = s["kind"]
            if k == "mark":
                lines.append(" " * ind + f"Mark: {s['label']}")
            elif k == "call":
                lines.append(" " * ind + f"Call macro: {s['name']}")
            elif k == "endblock":
                lines.append(" " * ind + "End block")
            elif k == "macro":
                lines.append(" " * ind + f"Macro: {s['name']}")
                emit(s["body"], ind + 4, s)
            elif k == "block":
                lines.append(" " * ind + f"Block: {s['name']}")
                emit(s["body"], ind + 4, s)
            elif k in ("watch", "alarm"):
                lines.append(" " * ind + f"{k.capitalize()}: {s['cond']}")
                emit(s["body"], ind + 4, s)
    emit(prog, 0, None)
    return "\n".join(lines) + "\n", flat


# ---------------------------------------------------------------------------------------------------------------
# own call-graph analysis
def calls_in(body, through_interrupts=True):
    """All `call` statements below `body` (any depth). -> list of (stmt, crosses_interrupt)"""
    out = []

    def walk(stmts, crossed):
        for s in stmts:
            if s["kind"] == "call":
                out.append((s, crossed))
            elif s["kind"] == "block":
                walk(s["body"], crossed)
            elif s["kind"] in ("watch", "alarm"):
                if through_interrupts:
                    walk(s["body"], True)
    walk(body, False)
    return out


def reaches(defs, start, target, sync_only=False):
    """Is `target` reachable from the body of macro `start` following calls through the given definitions?"""
    seen = set()
    todo = [start]
    while todo:
        m = todo.pop()
        if m in seen or m not in defs:
            continue
        seen.add(m)
        for c, crossed in calls_in(defs[m]["body"], through_interrupts=not sync_only):
            if c["name"] == target:
                return True
            todo.append(c["name"])
    return False


def first_direct_child_walk(defs, name):
    """Shape of the check the interpreter relies on: at each macro only the first direct `Call macro` child that is the
    target or a defined macro is followed. Returns True if that walk comes back to `name` (bounded)."""
    cur = name
    for _ in range(12):
        nxt = None
        for s in defs[cur]["body"]:
            if s["kind"] == "call" and (s["name"] == name or s["name"] in defs):
                nxt = s["name"]
                break
        if nxt is None:
            return False
        if nxt == name:
            return True
        cur = nxt
    return False


def simulate(prog):
    """Reference interpreter (interrupt bodies ignored).
    -> (status, marks, marks_before_the_top_level_statement_under_which_the_first_recursive_call_occurs)
    status in ok | undefined | recursive. For `recursive`, `marks` is everything up to the recursive call itself: the
    interpreter may reject that call or, just as well, an enclosing call that would lead to it."""
    defs = {}
    marks = []

    class Stop(Exception):
        pass
    state = {"status": "ok", "top_prefix": []}

    def run(stmts, depth):
        for s in stmts:
            if depth == 0:
                state["top_prefix"] = list(marks)
            k = s["kind"]
            if k == "mark":
                marks.append(s["label"])
            elif k == "macro":
                defs[s["name"]] = s
            elif k == "block":
                run(s["body"], depth + 1)
            elif k == "call":
                nm = s["name"]
                if nm not in defs:
                    state["status"] = "undefined"
                    raise Stop()
                if reaches(defs, nm, nm):
                    state["status"] = "recursive"
                    raise Stop()
                run(defs[nm]["body"], depth + 1)
    try:
        run(prog, 0)
    except Stop:
        pass
    return state["status"], marks, (state["top_prefix"] if state["status"] == "recursive" else None)


def has_interrupt(prog):
    def w(stmts):
        return any(s["kind"] in ("watch", "alarm") or w(s.get("body", [])) for s in stmts)
    return w(prog)


# ---------------------------------------------------------------------------------------------------------------
# monitor (class-level wrappers; active only while MON[0] is set)
MON = [None]
_installed = [False]
WRAP_HITS = [0]


def install_wrappers():
    if _installed[0]:
        return
    _installed[0] = True
    import openpectus.lang.exec.pinterpreter as PI
    import openpectus.lang.model.ast as p
    orig_call = PI.PInterpreter.visit_CallMacroNode
    orig_vc = PI.PInterpreter._visit_children
    orig_reg = PI.PInterpreter._register_interrupt

    def visit_CallMacroNode(self, node):
        m = MON[0]
        if m is None:
            yield from orig_call(self, node)
            return
        WRAP_HITS[0] += 1
        ev = m.call_start(self, node)
        gen = orig_call(self, node)
        try:
            for v in gen:
                yield v
        except GeneratorExit:
            ev["end"] = "closed"
            gen.close()
            raise
        except Exception as ex:
            ev["end"] = "raised"
            ev["exc"] = f"{type(ex).__name__}: {ex}"[:300]
            raise
        else:
            ev["end"] = "returned"
        finally:
            m.call_end(ev)

    def _visit_children(self, node):
        m = MON[0]
        if m is not None and isinstance(node, p.MacroNode):
            m.body_enter(self, node)
        yield from orig_vc(self, node)

    def _register_interrupt(self, node, warn_if_exists=True):
        m = MON[0]
        if m is not None:
            m.interrupt_registered(self, node)
        return orig_reg(self, node, warn_if_exists)

    PI.PInterpreter.visit_CallMacroNode = visit_CallMacroNode
    PI.PInterpreter._visit_children = _visit_children
    PI.PInterpreter._register_interrupt = _register_interrupt


class Monitor:
    def __init__(self, R, by_line):
        self.R = R
        self.by_line = by_line              # line index -> own stmt
        self.events = []
        self.stacks = {}                    # path key -> [event]
        self.chain = {}                     # interrupt node id -> macro names on the logical stack at registration
        self.ever_started = set()           # own line numbers of Macro definitions whose node has started
        self.stop = False
        self._tp = 0

    @staticmethod
    def line_of(node):
        try:
            return int(str(node.id)[1:]) if str(node.id).startswith("L") else None
        except ValueError:
            return None

    def path_key(self, interp):
        sep = interp._sep
        if sep is interp.main_sep:
            return "main"
        for i in interp._interrupts_map.values():
            if i.sep is sep:
                return "int:" + str(i.node.id)
        return "int:?" + str(id(sep))

    def logical(self, key):
        ch = self.chain.get(key[4:], []) if key.startswith("int:") else []
        return list(ch) + [e["macro"] for e in self.stacks.get(key, [])]

    def _scan_trace(self):
        T = self.R.TRACE
        while self._tp < len(T):
            ev = T[self._tp]
            self._tp += 1
            if ev[1] == "started" and ev[5] is True and ev[3] == "MacroNode":
                ln = int(ev[2][1:]) if str(ev[2]).startswith("L") else None
                if ln is not None:
                    self.ever_started.add(ln)

    def defs_now(self):
        """name -> own definition stmt that is the textually last one whose node has started."""
        self._scan_trace()
        out = {}
        for ln in sorted(self.ever_started):
            s = self.by_line.get(ln)
            if s is not None and s["kind"] == "macro":
                out[s["name"]] = s
        return out

    def call_start(self, interp, node):
        key = self.path_key(interp)
        name = node.macro_name
        defs = self.defs_now()
        logical = self.logical(key)
        ev = {"macro": name, "line": self.line_of(node), "tick": self.R.TICK[0], "path": key, "logical": logical,
              "entered": False, "body_line": None, "end": None, "trace0": len(self.R.TRACE),
              "expected_def": defs[name]["line"] if name in defs else None,
              "n_defs": sum(1 for ln in self.ever_started if self.by_line[ln]["name"] == name),
              "static_rec": name in defs and reaches(defs, name, name),
              "sync_rec": name in defs and reaches(defs, name, name, sync_only=True),
              "first_child_cycle": name in defs and first_direct_child_walk(defs, name),
              "reentry": name in logical, "node": node,
              "reentry_sync": name in [e["macro"] for e in self.stacks.get(key, [])]}
        self.events.append(ev)
        self.stacks.setdefault(key, []).append(ev)
        return ev

    def body_enter(self, interp, macro_node):
        key = self.path_key(interp)
        st = self.stacks.get(key, [])
        if st and st[-1]["body_line"] is None and st[-1]["macro"] == macro_node.macro_name:
            st[-1]["body_line"] = self.line_of(macro_node)
            st[-1]["entered"] = True
            st[-1]["body_node"] = macro_node
            if st[-1]["reentry"]:
                self.stop = True            # recursion executed: nothing more to learn from this run

    def call_end(self, ev):
        ev["trace1"] = len(self.R.TRACE)
        ev["end_tick"] = self.R.TICK[0]
        st = self.stacks.get(ev["path"], [])
        if ev in st:
            st.remove(ev)

    def interrupt_registered(self, interp, node):
        key = self.path_key(interp)
        self.chain[str(node.id)] = self.logical(key)


# ---------------------------------------------------------------------------------------------------------------
def gen_case(rnd: random.Random):
    g = G(rnd)
    prog, meta = g.cycle() if rnd.random() < 0.45 else g.plain()
    text, flat = render(prog)
    edit = None
    if rnd.random() < 0.35:
        defs = [s for s in flat if s["kind"] == "macro"]
        if defs:
            d = rnd.choice(defs)
            edit = {"def_line": d["line"], "kind": rnd.choice(["change_body", "remove_body_line", "add_body_line",
                                                                "remove_macro", "rename"]),
                    "tick": rnd.choice([rnd.randint(2, 14), rnd.randint(8, 40), 10 ** 6])}
    return {"prog": prog, "meta": meta, "edit": edit, "ft": 6.0}


def build_edit(text, flat, edit, R):
    """-> protocol Method with the edit applied (ids of untouched lines preserved)."""
    lines = text.split("\n")[:-1]
    d = next(s for s in flat if s["line"] == edit["def_line"])

    def span(s):
        last = s["line"]
        for b in s.get("body", []):
            last = max(last, span(b)[1])
        return s["line"], last
    lo, hi = span(d)
    ids = [(f"L{i}", c) for i, c in enumerate(lines)]
    k = edit["kind"]
    body_lines = list(range(lo + 1, hi + 1))
    if k == "change_body":
        i = body_lines[0]
        c = lines[i]
        ind = c[:len(c) - len(c.lstrip(" "))]
        ids[i] = (f"L{i}", ind + "Mark: edited")
    elif k == "remove_body_line":
        if len(d["body"]) >= 2:
            a, b = span(d["body"][-1])
            ids = ids[:a] + ids[b + 1:]
        else:
            ids[lo + 1] = (f"L{lo + 1}", "    Mark: replaced")
    elif k == "add_body_line":
        ids = ids[:hi + 1] + [("Nadd", "    Mark: added")] + ids[hi + 1:]
    elif k == "remove_macro":
        ids = ids[:lo] + ids[hi + 1:]
    elif k == "rename":
        ids[lo] = (f"L{lo}", "Macro: Z")
    return R.method_from_lines(ids, version=1)


def check_case(case, res: Result):
    from opv.rigs import engine_rig as R
    import openpectus.lang.model.ast as p
    from openpectus.lang.exec.errors import MethodEditError
    from opv.gen_pcode import shape_hash
    install_wrappers()
    prog = case["prog"]
    text, flat = render(prog)
    by_line = {s["line"]: s for s in flat}
    rig = R.EngineRig(text)
    rig.hw.inputs["FT01"] = case.get("ft", 6.0)
    mon = Monitor(R, by_line)
    viol = []
    edit = case.get("edit")
    edit_result = None
    edit_tick = None
    try:
        MON[0] = mon
        rig.start()
        last_ev = 0
        k = 0
        n_ev = 0
        while k < 400:
            if edit and edit_result is None and (k >= edit["tick"]) and not rig.errors and rig.state == "Running" \
                    and rig.e.method_manager.program_is_started:
                edit_result, edit_tick = _do_edit(rig, mon, text, flat, edit, R, MethodEditError, res, viol), rig.k
                if edit_result == "accepted":
                    break
            n0 = len(R.TRACE)
            rig.tick(catch=True)
            k += 1
            if len(R.TRACE) != n0:
                last_ev = k
            if k - last_ev >= 25 or rig.errors or rig.tick_exc:
                break
            if mon.stop or len(mon.events) > 200:
                break                       # recursion was executed (or runaway chain): enough evidence
        if edit and edit_result is None and not rig.errors and rig.state == "Running" \
                and rig.e.method_manager.program_is_started and not mon.stop:
            edit_result, edit_tick = _do_edit(rig, mon, text, flat, edit, R, MethodEditError, res, viol), rig.k
            if edit_result == "rejected":
                rig.tick(5, catch=True)
        horizon_tick = rig.k
        # give a rejected recursive call its 3 ticks
        if rig.errors:
            rig.tick(3, catch=True)
        MON[0] = None
        trace = list(R.TRACE)
        marks = rig.marks()
        errored = bool(rig.errors)
        if rig.tick_exc:
            viol.append((None, f"tick raised: {rig.tick_exc[0]}"))

        # ---------------- per call event
        res.count("wrapper_hits", WRAP_HITS[0])
        WRAP_HITS[0] = 0
        any_static_rec = False
        reentered = False
        for ev in mon.events:
            res.count("call_events")
            if ev["n_defs"] >= 2:
                res.count("redefinition_calls")
            defs_known = ev["expected_def"] is not None

            # (A1) latest definition
            if ev["entered"]:
                res.count("body_definition_checks")
                if ev["body_line"] != ev["expected_def"]:
                    older = defs_known and ev["body_line"] is not None and ev["body_line"] < ev["expected_def"]
                    mech = "C41.call_ran_superseded_definition" if older else None
                    viol.append((mech, f"call at line {ev['line']} (tick {ev['tick']}) of macro {ev['macro']} ran the body "
                                 f"defined at line {ev['body_line']}, most recently defined body is at line "
                                 f"{ev['expected_def']}"))
            elif ev["end"] == "raised" and not defs_known:
                res.count("undefined_macro_call_failed")
            elif ev["end"] == "returned" and not ev["entered"]:
                viol.append((None, f"call at line {ev['line']} of macro {ev['macro']} returned without running a body"))

            # (A2) body lines once per call, in order (direct children of the body definition)
            if ev["entered"] and ev["end"] == "returned" and not ev["reentry"] and not ev["static_rec"]:
                body = ev["body_node"]
                kids = [c for c in body.children if not isinstance(c, p.WhitespaceNode)]
                idx = {id(c): i for i, c in enumerate(kids)}
                order = [idx[e[6]] for e in trace[ev["trace0"]:ev["trace1"]]
                         if e[1] == "started" and e[5] is True and e[6] in idx]
                res.count("body_order_checks")
                if order != list(range(len(kids))):
                    viol.append((None, f"call at line {ev['line']} of macro {ev['macro']} (ticks {ev['tick']}-"
                                 f"{ev['end_tick']}) started its {len(kids)} body lines in order {order}"))

            # (B) recursion
            if ev["static_rec"]:
                any_static_rec = True
                res.count("recursive_calls_static")
                res.count("recursive_calls_sync" if ev["sync_rec"] else "recursive_calls_through_interrupt_only")
                if not ev["entered"] and ev["end"] == "raised":
                    res.count("recursive_rejected_at_check")
                    node = ev["node"]
                    ok = node.failed and any(t <= ev["tick"] + 3 for (t, _ty, _m) in rig.errors)
                    if not ok:
                        viol.append((None, f"recursive call at line {ev['line']} was rejected at tick {ev['tick']} but is "
                                     f"not marked failed / no method error within 3 ticks (failed={node.failed}, "
                                     f"errors={rig.errors[:1]})"))
            if ev["reentry"]:
                res.count("reentry_attempts")
                if ev["entered"] and not reentered:
                    reentered = True
                    via = "a nested call on the same path" if ev["reentry_sync"] else \
                        "a Watch/Alarm that was registered while the macro was running"
                    mech = None
                    if ev["static_rec"] and not ev["first_child_cycle"]:
                        mech = "C41.recursion_check_first_direct_child_only"
                    viol.append((mech, f"macro {ev['macro']} entered again at tick {ev['tick']} (call at line {ev['line']}, "
                                 f"path {ev['path']}) while already on the invocation stack {ev['logical']} via {via}: "
                                 f"recursion executed instead of failing"))
                elif ev["end"] == "raised":
                    res.count("reentry_rejected")

        # stall: a statically recursive call that was entered, never returned/raised, run still 'Running', nothing moves
        for ev in mon.events:
            if ev["static_rec"] and ev["entered"] and ev["end"] in (None, "closed") and not errored and not reentered \
                    and edit_result != "accepted" and rig.state == "Running" and not mon.stop:
                mech = "C41.recursion_check_first_direct_child_only" if not ev["first_child_cycle"] else None
                viol.append((mech, f"recursive call at line {ev['line']} of macro {ev['macro']} (tick {ev['tick']}) neither "
                             f"failed nor completed by tick {horizon_tick}: run stalls in state Running"))
                break
        if any_static_rec and not reentered and not errored:
            if all(e["end"] == "returned" for e in mon.events if e["static_rec"]):
                res.count("static_recursive_completed_without_reentry")

        # ---------------- (A3) marks oracle for interrupt-free programs
        status, exp_marks, rec_prefix = simulate(prog)
        if edit_result != "accepted" and not has_interrupt(prog):
            if status == "ok":
                res.count("marks_oracle_checks")
                if marks != exp_marks or errored:
                    mech = None
                    if not errored and marks == exp_marks[:len(marks)] and _block_lock_stall(rig, mon, p):
                        mech = "C41.block_in_macro_body_waits_for_callers_block_lock"
                    viol.append((mech, f"marks {marks} differ from the reference expansion {exp_marks} "
                                 f"(errors={rig.errors[:1]})"))
            elif status == "undefined":
                res.count("marks_oracle_checks")
                if marks != exp_marks or not errored:
                    viol.append((None, f"call of an undefined macro: marks {marks} vs expected prefix {exp_marks}, "
                                 f"errored={errored}"))
            else:
                res.count("marks_prefix_checks_recursive")
                rec_entered = any(e["static_rec"] and e["entered"] for e in mon.events)
                if marks[:len(rec_prefix)] != rec_prefix or (not rec_entered and marks != exp_marks[:len(marks)]):
                    mech = None
                    if not errored and marks == exp_marks[:len(marks)] and _block_lock_stall(rig, mon, p):
                        # same causal shape as in the non-recursive branch: the run stalled before it reached the
                        # recursive call because a Block in a macro body waits for the caller's block lock
                        mech = "C41.block_in_macro_body_waits_for_callers_block_lock"
                    viol.append((mech, f"marks {marks}: expected everything before the top-level statement that leads "
                                 f"to the first recursive call ({rec_prefix}) and at most {exp_marks}"))
        if status == "recursive":
            res.count("programs_with_reachable_recursion")
        n_defs = sum(1 for s in flat if s["kind"] == "macro")
        interesting = (n_defs >= 2 or case["meta"]["mode"] == "cycle" or edit_result is not None) and mon.events
        res.case(shape_hash(text) + "|" + str(edit["kind"] if edit_result else "") if interesting else None,
                 sample={"method": text, "meta": case["meta"], "edit": edit if edit_result else None,
                         "edit_result": edit_result, "marks": marks[:14], "calls": len(mon.events), "ticks": rig.k,
                         "errors": rig.errors[:1]})
    finally:
        MON[0] = None
        rig.close()
    seen = set()
    slim = {"prog": _strip(prog), "meta": case["meta"], "edit": case.get("edit"), "ft": case.get("ft", 6.0)}
    for mech, msg in viol:
        if (mech, msg) in seen:
            continue
        seen.add((mech, msg))
        res.violation(mech, msg + " | method: " + repr(text), slim)


def _block_lock_stall(rig, mon, p):
    """Causal shape: a Block inside a macro body has started but waits for the block lock, and the lock is held by a
    Block that lexically encloses the (still active) `Call macro` line - not an ancestor of the waiting Block, so
    visit_BlockNode.try_acquire_lock can never succeed."""
    prog = rig.program()
    locked = prog.get_locked_blocks()
    active_calls = [ev["node"] for ev in mon.events if ev["entered"] and ev["end"] is None]
    for b in prog.get_all_nodes():
        if isinstance(b, p.BlockNode) and b.started and not b.lock_acquired and not b.completed \
                and any(isinstance(a, p.MacroNode) for a in b.parents):
            for L in locked:
                if L not in b.parents and any(L in c.parents for c in active_calls):
                    return True
    return False


def _strip(prog):
    out = []
    for s in prog:
        d = {k: v for k, v in s.items() if k not in ("parent", "line", "body")}
        if "body" in s:
            d["body"] = _strip(s["body"])
        out.append(d)
    return out


def _do_edit(rig, mon, text, flat, edit, R, MethodEditError, res, viol):
    d_line = edit["def_line"]
    mon._scan_trace()
    started = any(ev["entered"] and ev["body_line"] == d_line for ev in mon.events)
    m = build_edit(text, flat, edit, R)
    try:
        rig.e.set_method(m)
        outcome = "accepted"
    except MethodEditError:
        outcome = "rejected"
    except Exception as ex:
        outcome = "rejected"
        viol.append((None, f"edit raised {type(ex).__name__} instead of MethodEditError: {ex}"[:300]))
    d = next(s for s in flat if s["line"] == d_line)
    if started:
        res.count("edit_of_started_macro_checks")
        if outcome == "accepted":
            later = [s for s in flat if s["kind"] == "macro" and s["name"] == d["name"] and s["line"] > d_line
                     and s["line"] in mon.ever_started]
            mech = None
            if later and edit["kind"] in ("remove_body_line", "remove_macro", "add_body_line"):
                mech = "C41.started_macro_superseded_by_redefinition_not_protected"
            viol.append((mech, f"edit '{edit['kind']}' of macro {d['name']} defined at line {d_line}, which had already "
                         f"started (called before tick {rig.k}), was accepted at tick {rig.k} instead of raising "
                         f"MethodEditError"))
    else:
        res.count("edit_of_unstarted_macro_" + outcome)
    return outcome


def run_shard(spec):
    res = Result()
    rnd = random.Random(spec["seed"])
    for _ in range(spec["n"]):
        check_case(gen_case(rnd), res)
    return res


def replay(case):
    res = Result()
    check_case(case, res)
    return res
