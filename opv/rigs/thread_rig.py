"""R9 - thread rig: deterministic scheduler for a few real threads over the real Engine.

* Exactly one managed thread runs at any moment; control moves to another thread only
  - at a *yield point* = a sys.monitoring PY_START / PY_RESUME / PY_THROW event of a code object that belongs to
    Engine, MethodManager, CommandManager, PInterpreter or Tracking (methods, properties, nested functions), and only
    if the schedule names that yield-point index of that thread as a preemption point;
  - when a thread blocks on the cooperative replacement of `engine._lock`;
  - when a thread finishes.
* Nothing in /repo is edited. `engine._lock` is replaced (attribute assignment from the harness) by `CoopLock`, which
  has the interface of threading.Lock / RLock (the kind is copied from the lock it replaces) and reports blocking to the
  scheduler instead of blocking the OS thread. It is put back after the controlled section.
* Liveness is counted in scheduler steps (yield points), never in wall-clock. A wall-clock watchdog exists only to keep
  a broken run from wedging the shard; when it fires `Outcome.watchdog` is set and the caller must treat the case as
  inconclusive.

Trusted base: thread switches matter only at the instrumented yield points (bytecode-level preemption inside one
function body is not explored); the cyclic GC is switched off inside the controlled section so that finalizers of
dropped interpreters (generator close => `finally` blocks of PInterpreter.visit) run at reference-count time, i.e. at a
deterministic place of the schedule.
"""
from __future__ import annotations

import gc
import sys
import threading
import types
from typing import Callable

mon = sys.monitoring
_TID = None
_TARGETS: set = set()
_ACTIVE: list = [None]          # the scheduler that currently owns the yield points (or None)
HITS = [0]                      # yield-point callbacks seen while a scheduler was active


class SchedAbort(BaseException):
    """Raised inside managed threads to unwind them when the step budget is exhausted / a deadlock was found."""


def _code_objects(cls) -> set:
    out = set()

    def add(code):
        if code in out:
            return
        out.add(code)
        for c in code.co_consts:
            if isinstance(c, types.CodeType):
                add(c)
    for f in vars(cls).values():
        if isinstance(f, (staticmethod, classmethod)):
            f = f.__func__
        if isinstance(f, property):
            for g in (f.fget, f.fset, f.fdel):
                if g is not None and hasattr(g, "__code__"):
                    add(g.__code__)
        elif hasattr(f, "__code__"):
            add(f.__code__)
    return out


def _on_local(code, offset):
    s = _ACTIVE[0]
    if s is not None:
        s.yield_point(code.co_qualname)


def _on_throw(code, offset, exc):
    if code in _TARGETS:
        s = _ACTIVE[0]
        if s is not None:
            s.yield_point(code.co_qualname + "<throw>")


def install() -> int:
    """Idempotent. Arms PY_START|PY_RESUME as *local* events on the target code objects only (no other code is
    instrumented) and PY_THROW globally (it is not a local event; the callback filters on the same code objects).
    Returns the number of target code objects."""
    global _TID
    if _TID is not None:
        return len(_TARGETS)
    import openpectus.engine.engine as E
    import openpectus.engine.method_manager as MM
    import openpectus.engine.command_manager as CM
    import openpectus.lang.exec.pinterpreter as PI
    import openpectus.lang.exec.tracking as TR
    for cls in (E.Engine, MM.MethodManager, CM.CommandManager, PI.PInterpreter, TR.Tracking):
        _TARGETS.update(_code_objects(cls))
    tid = None
    for cand in (mon.DEBUGGER_ID, 3, 4, mon.PROFILER_ID, mon.COVERAGE_ID):
        if mon.get_tool(cand) is None:
            tid = cand
            break
    if tid is None:
        raise RuntimeError("no free sys.monitoring tool id")
    mon.use_tool_id(tid, "opv-thread-rig")
    ev = mon.events
    mon.register_callback(tid, ev.PY_START, _on_local)
    mon.register_callback(tid, ev.PY_RESUME, _on_local)
    mon.register_callback(tid, ev.PY_THROW, _on_throw)
    for code in _TARGETS:
        mon.set_local_events(tid, code, ev.PY_START | ev.PY_RESUME)
    mon.set_events(tid, ev.PY_THROW)
    _TID = tid
    return len(_TARGETS)


class Sched:
    """Threads are named; `order` is the fallback priority used when the running thread finishes or blocks.
    `switch_at[name][idx] = target`: when thread `name` reaches its idx-th yield point (1-based) control moves to
    `target` if that thread is runnable (otherwise the preemption is a no-op and counted). `on_finish[name] = target`
    prefers `target` when `name` finishes (used to run two requests back to back at one preemption point)."""

    def __init__(self, order: list[str], switch_at: dict[str, dict[int, str]] | None = None, first: str | None = None,
                 budget: int = 20000, on_finish: dict[str, str] | None = None):
        self.cv = threading.Condition()
        self.order = list(order)
        self.switch_at = {n: dict((switch_at or {}).get(n, {})) for n in order}
        self.first = first or order[0]
        self.on_finish = dict(on_finish or {})   # thread -> thread preferred next when it finishes
        self.turn: str | None = None
        self.alive: set[str] = set()
        self.finished: list[str] = []
        self.finish_step: dict[str, int] = {}   # global step counter when the thread's body returned
        self.blocked: set[str] = set()
        self.count = {n: 0 for n in order}
        self.steps = 0
        self.budget = budget
        self.aborted: str | None = None
        self.events: list[tuple] = []       # (global step, thread, idx, label, lock owner)
        self.switches: list[tuple] = []     # (thread, idx, target, lock owner at that moment, label)
        self.noop_preemptions = 0
        self.lock: CoopLock | None = None
        self.errors: dict[str, str] = {}
        self.results: dict[str, object] = {}
        self.watchdog = False

    # -- helpers (cv held)
    def _runnable(self, n):
        return n in self.alive and n not in self.blocked

    def _pick(self, exclude=None):
        for n in self.order:
            if n != exclude and self._runnable(n):
                return n
        return None

    def _wait_turn(self, me):
        while self.turn != me:
            if self.aborted:
                raise SchedAbort(self.aborted)
            self.cv.wait(0.5)
        if self.aborted:
            raise SchedAbort(self.aborted)

    def _abort(self, why):
        if not self.aborted:
            self.aborted = why
        self.cv.notify_all()

    # -- called from managed threads
    def yield_point(self, label):
        me = threading.current_thread().name
        if me not in self.alive:
            return
        with self.cv:
            if self.aborted:
                raise SchedAbort(self.aborted)
            HITS[0] += 1
            self.steps += 1
            self.count[me] += 1
            idx = self.count[me]
            owner = self.lock.owner if self.lock is not None else None
            if len(self.events) < 4000:
                self.events.append((self.steps, me, idx, label, owner))
            if self.steps > self.budget:
                self._abort("step budget exhausted")
                raise SchedAbort(self.aborted)
            tgt = self.switch_at[me].get(idx)
            if tgt is not None:
                if self._runnable(tgt):
                    self.switches.append((me, idx, tgt, owner, label))
                    self.turn = tgt
                    self.cv.notify_all()
                    self._wait_turn(me)
                else:
                    self.noop_preemptions += 1

    def block_on_lock(self):
        """The calling thread cannot take the cooperative lock: hand control to somebody else."""
        me = threading.current_thread().name
        with self.cv:
            self.blocked.add(me)
            nxt = self._pick(exclude=me)
            if nxt is None:
                self._abort("deadlock: every live thread is blocked on engine._lock")
                raise SchedAbort(self.aborted)
            self.turn = nxt
            self.cv.notify_all()
            self._wait_turn(me)

    def lock_released(self):
        with self.cv:
            self.blocked.clear()

    def _thread_main(self, name, fn):
        with self.cv:
            self.alive.add(name)
            self.cv.notify_all()
            try:
                self._wait_turn(name)
            except SchedAbort:
                self.alive.discard(name)
                self.finished.append(name)
                self.cv.notify_all()
                return
        try:
            self.results[name] = fn()
        except SchedAbort as ex:
            self.errors[name] = "SchedAbort: " + str(ex)
        except BaseException as ex:  # noqa
            self.errors[name] = f"{type(ex).__name__}: {ex}"[:500]
        finally:
            with self.cv:
                self.alive.discard(name)
                self.finished.append(name)
                self.finish_step[name] = self.steps
                if self.lock is not None and self.lock.owner == name:
                    # thread died holding the lock (unwound by abort): free it so that others can unwind too
                    self.lock.owner = None
                    self.lock.depth = 0
                    self.blocked.clear()
                pref = self.on_finish.get(name)
                self.turn = pref if pref is not None and self._runnable(pref) else self._pick()
                if self.turn is None and self.alive:
                    self._abort("deadlock: every live thread is blocked on engine._lock")
                self.cv.notify_all()

    # -- driver
    def run(self, bodies: dict[str, Callable[[], object]], watchdog_s: float = 60.0):
        """Runs the bodies under the schedule (on persistent worker threads named like the bodies) and returns when
        all have finished."""
        install()
        import time as _t
        real = getattr(_t, "monotonic")          # never the (virtual) time.time
        names = [n for n in self.order if n in bodies]
        gc_was = gc.isenabled()
        gc.disable()
        swi = sys.getswitchinterval()
        sys.setswitchinterval(0.0005)            # hand-over latency only; one managed thread runs at a time anyway
        _ACTIVE[0] = self
        try:
            _POOL.submit(self, {n: bodies[n] for n in names})
            deadline = real() + watchdog_s
            with self.cv:
                while len(self.alive) + len(self.finished) < len(names) and real() < deadline:
                    self.cv.wait(0.2)
                self.turn = self.first if self.first in self.alive else self._pick()
                self.cv.notify_all()
                while len(self.finished) < len(names) and real() < deadline:
                    self.cv.wait(0.2)
                if len(self.finished) < len(names):
                    self.watchdog = True
                    self._abort("wall-clock watchdog")
                    end2 = real() + 3.0
                    while len(self.finished) < len(names) and real() < end2:
                        self.cv.wait(0.2)
                    if len(self.finished) < len(names):
                        _POOL.poisoned = True
        finally:
            _ACTIVE[0] = None
            sys.setswitchinterval(swi)
            if gc_was:
                gc.enable()
        return self


class _Pool:
    """Persistent daemon worker threads (thread start latency dominates on a loaded machine otherwise)."""

    def __init__(self):
        self.cv = threading.Condition()
        self.jobs: dict[str, tuple] = {}
        self.threads: dict[str, threading.Thread] = {}
        self.poisoned = False

    def _loop(self, name):
        while True:
            with self.cv:
                while name not in self.jobs:
                    self.cv.wait()
                sched, fn = self.jobs.pop(name)
            sched._thread_main(name, fn)

    def submit(self, sched, bodies):
        if self.poisoned:
            raise RuntimeError("thread rig: a worker thread from an earlier schedule never came back (wall-clock watchdog)")
        with self.cv:
            for n, fn in bodies.items():
                if n not in self.threads:
                    t = threading.Thread(target=self._loop, args=(n,), name=n, daemon=True)
                    self.threads[n] = t
                    t.start()
                self.jobs[n] = (sched, fn)
            self.cv.notify_all()


_POOL = _Pool()


class CoopLock:
    """Cooperative stand-in for engine._lock (context manager + acquire/release)."""

    def __init__(self, sched: Sched, reentrant: bool):
        self.sched = sched
        self.reentrant = reentrant
        self.owner: str | None = None
        self.depth = 0
        self.acquired_by: list[str] = []     # one entry per successful outermost acquisition
        self.blocked_log: list[str] = []
        sched.lock = self

    def acquire(self, blocking=True, timeout=-1):
        me = threading.current_thread().name
        if self.owner == me:
            if self.reentrant:
                self.depth += 1
                return True
            # a plain Lock taken twice by the same thread blocks for ever
            self.blocked_log.append(me + ":self-deadlock")
        while self.owner is not None:
            if not blocking:
                return False
            self.blocked_log.append(me)
            self.sched.block_on_lock()
        self.owner = me
        self.depth = 1
        self.acquired_by.append(me)
        return True

    def release(self):
        self.depth -= 1
        if self.depth <= 0:
            self.owner = None
            self.depth = 0
            self.sched.lock_released()

    def locked(self):
        return self.owner is not None

    def __enter__(self):
        self.acquire()
        return self

    def __exit__(self, *a):
        self.release()
        return False


def is_reentrant_lock(lock) -> bool:
    return type(lock) is type(threading.RLock())


def run_controlled(engine, bodies: dict[str, Callable[[], object]], order: list[str],
                   switch_at: dict[str, dict[int, str]] | None = None, first: str | None = None,
                   budget: int = 20000, watchdog_s: float = 60.0, on_finish: dict[str, str] | None = None) -> Sched:
    """Runs `bodies` (thread name -> callable) against `engine` under the given schedule with engine._lock replaced
    by a CoopLock for the duration."""
    orig = engine._lock
    sched = Sched(order, switch_at, first, budget, on_finish)
    lock = CoopLock(sched, is_reentrant_lock(orig))
    engine._lock = lock
    try:
        sched.run(bodies, watchdog_s)
    finally:
        engine._lock = orig
    return sched
