"""Helpers shared by the C10 / C11 / C12 / C15 checks (commands, stop/restart, cancel/force requests, run log).

Everything here wraps or extends opv.rigs.engine_rig / opv.gen_pcode without editing them:

* CmdGen            - P-code generator with a raised density of UOD commands (Long/Long2/Other/Drive1/Short/Fail)
* StopListener      - EventListener that builds the run-stopped message with the real EngineMessageBuilder inside
                      on_stop, exactly as EngineRunner.on_stop does (run id taken before super().on_stop())
* Requests          - cancel/force requests through the real EngineMessageHandlers.handle_cancelMsg/handle_forceMsg
* check_runlog      - the C15 well-formedness monitor for one tick
* snapshot          - observable engine state used by the "rejected => nothing changed" rule of C12
"""
from __future__ import annotations

import random

from opv.gen_pcode import Gen
from opv.rigs import engine_rig as R

import openpectus.lang.model.ast as p
import openpectus.protocol.aggregator_messages as AM
from openpectus.engine.engine_message_builder import EngineMessageBuilder
from openpectus.engine.engine_message_handlers import EngineMessageHandlers
from openpectus.lang.exec.events import EventListener

_sched_hook = False
CMDS = ("Long", "Long2", "Other", "Drive1", "Short", "Long", "Long2", "Set1: 3")
OVERLAP = (frozenset(("Long", "Long2")),)
CONCLUSIVE = ("completed", "failed", "cancelled")


class CmdGen(Gen):
    """Gen with `p_uod` of all statements being UOD commands from `uod_cmds`."""

    def __init__(self, rnd: random.Random, p_uod: float = 0.4, **kw):
        kw.setdefault("uod_cmds", CMDS)
        super().__init__(rnd, **kw)
        self.p_uod = p_uod

    def stmt(self, ind, depth, in_block, no_blank=False):
        if self.r.random() < self.p_uod:
            self.kinds.append("uod")
            self.emit(ind, self.r.choice(self.uod_cmds))
            return
        super().stmt(ind, depth, in_block, no_blank)


def insert_line(text: str, at: int, line: str) -> str | None:
    """Insert `line` before the `at`-th non-blank, non-comment line using that line's indentation (always well-formed).
    Returns None if there is no such line."""
    lines = text.split("\n")
    idx = [i for i, ln in enumerate(lines) if ln.strip() and not ln.strip().startswith("#")]
    if at >= len(idx):
        return None
    i = idx[at]
    ind = len(lines[i]) - len(lines[i].lstrip(" "))
    lines.insert(i, " " * ind + line)
    return "\n".join(lines)


# ------------------------------------------------------------------------------------------------
class StopListener(EventListener):
    """Mirrors EngineRunner.on_stop: remember run id, call the base handler, build the run-stopped message."""

    def __init__(self, rig: R.EngineRig):
        super().__init__()
        self.rig = rig
        self.builder = EngineMessageBuilder(rig.e, "", True)
        self.stops: list[dict] = []      # one entry per on_stop
        self.starts: list[tuple[int, str]] = []
        rig.e.emitter.add_listener(self)

    def on_start(self, run_id: str):
        self.starts.append((R.TICK[0], run_id))

    def on_stop(self):
        run_id = self.run_id
        super().on_stop()
        ent = {"tick": R.TICK[0], "run_id": run_id, "msg": None, "exc": None,
               "n_cmdlog": len(self.rig.cmdlog), "records": records_plain(self.rig)}
        try:
            assert run_id is not None
            ent["msg"] = self.builder.create_run_stopped_msg(run_id)
        except Exception as ex:  # the real runner would lose the message here
            ent["exc"] = f"{type(ex).__name__}: {ex}"[:300]
        self.stops.append(ent)


class _NullDispatcher:
    def set_rpc_handler(self, message_type, handler):
        pass


class Requests:
    """Cancel/force through the real message handlers ("rejected" = ErrorMessage)."""

    def __init__(self, rig: R.EngineRig):
        self.h = EngineMessageHandlers(rig.e, _NullDispatcher())

    @staticmethod
    def _drive(coro):
        try:
            coro.send(None)
        except StopIteration as si:
            return si.value
        raise RuntimeError("handler awaited something")

    def cancel(self, exec_id: str) -> bool:
        r = self._drive(self.h.handle_cancelMsg(AM.CancelMsg(exec_id=exec_id)))
        return isinstance(r, AM.SuccessMessage)

    def force(self, exec_id: str) -> bool:
        r = self._drive(self.h.handle_forceMsg(AM.ForceMsg(exec_id=exec_id)))
        return isinstance(r, AM.SuccessMessage)


# ------------------------------------------------------------------------------------------------
def item_tuple(i):
    return (i.id, i.name, str(i.state), bool(i.cancellable), bool(i.forcible), bool(i.cancelled), bool(i.forced),
            bool(i.failed), i.start, i.end)


def snapshot(rig: R.EngineRig) -> dict:
    """Everything a client of the engine can observe between two ticks."""
    e = rig.e
    ms = e.method_manager.get_method_state()
    try:
        rl = tuple(item_tuple(i) for i in e.tracking.get_runlog().items)
    except Exception as ex:
        rl = ("RAISES", type(ex).__name__)
    return {
        "tags": tuple(sorted((t.name, repr(t.get_value())) for t in e.tags)),
        "simulated": tuple(sorted(t.name for t in e.tags if t.simulated)),
        "control": (e._runstate_started, e._runstate_paused, e._runstate_holding, e._runstate_stopping),
        "method_state": (tuple(ms.started_line_ids), tuple(ms.executed_line_ids), tuple(ms.failed_line_ids)),
        "instances": tuple(sorted(rig.uod.command_instances)),
        "engine_cmds": tuple(sorted(e.registry.get_running_command_names())),
        "cmdlog": len(rig.cmdlog),
        "runlog": rl,
        "error": e.has_error_state(),
    }


def snap_diff(a: dict, b: dict) -> list[str]:
    out = []
    for k in a:
        if a[k] != b[k]:
            if k in ("tags", "runlog") and isinstance(a[k], tuple) and isinstance(b[k], tuple):
                sa, sb = set(a[k]), set(b[k])
                out.append(f"{k}: -{sorted(sa - sb, key=str)[:3]} +{sorted(sb - sa, key=str)[:3]}")
            else:
                out.append(f"{k}: {a[k]} -> {b[k]}")
    return out


# ------------------------------------------------------------------------------------------------
# C15 monitor
EXCLUDED_KINDS = (p.ProgramNode, p.BlankNode, p.CommentNode, p.InjectedNode, p.ErrorInstructionNode)


def all_known_nodes(rig: R.EngineRig):
    """Method nodes plus injected nodes known to the tracking."""
    prog = rig.program()
    out = list(prog.get_all_nodes())
    for n in rig.e.tracking.runtimeinfo._injected_node_map.values():
        out.append(n)
    return out


def records_plain(rig: R.EngineRig) -> list[tuple]:
    """[(record name, node class, node id, [(instance id, [state names])])] from the runtime records, instances in order
    of first appearance (used by classifiers only, never by an oracle)."""
    out = []
    for r in rig.e.tracking.runtimeinfo.records:
        by: dict[str, list[str]] = {}
        for s in r.states:
            by.setdefault(s.instance_id, []).append(s.state_name.value)
        out.append((r.name, r.node_class_name, r.node_id, list(by.items())))
    return out


def shared_instance_ids() -> set:
    """instance ids handed to CommandManager.schedule more than once (two interpreter paths walking one line)"""
    n: dict[str, int] = {}
    for q in REQS:
        n[q[2]] = n.get(q[2], 0) + 1
    return {i for i, c in n.items() if c >= 2}


def classify_records(records: list[tuple], requested_ids=(), tainted_ids=(), shared_ids=()) -> tuple[str | None, str]:
    """Names the cause of 'a state follows a conclusive state' (which makes get_runlog raise). Returns (suffix, text)."""
    for name, cls, node_id, insts in records:
        # a request addresses an item id, but Tracking.mark_forced/mark_cancelled book the state on the newest
        # instance of that item's record: "requested" is therefore decided per record
        rec_requested = any(i in requested_ids for i, _ in insts)
        for k, (iid, names) in enumerate(insts):
            concl = [x for x, n in enumerate(names) if n in CONCLUSIVE]
            if not concl or concl[0] == len(names) - 1:
                continue
            first = concl[0]
            tail = names[first + 1:]
            desc = f"record {name!r} ({cls}) instance states {names}"
            if rec_requested and all(t in ("forced", "cancelled") for t in tail):
                return "request_on_concluded_item_appends_state", desc
            if cls == "EngineCommandNode" and names[first] == "failed" and tail[0] in ("completed", "cancelled") \
                    and "internalenginecommandset" not in names[:first]:
                # argument validation failed before the command started, but its instance stays registered and its
                # request stays in the executing list: it is run (-> completed) or cancelled by Stop/Restart later
                return "failed_engine_command_stays_registered", desc
            if cls == "UodCommandNode" and names[first] == "cancelled" and tail == ["failed"] and "uodcommandset" in names:
                # exec function raised: CommandManager cancels the command (cancelled) and then marks it failed as well
                return "failing_uod_command_cancelled_then_failed", desc
            if cls == "AlarmNode" and rec_requested and names[first] == "cancelled" \
                    and all(t in ("awaitingcondition", "started", "completed", "forced") for t in tail):
                # accepted cancel of an Alarm: visit_AlarmNode never looks at node.cancelled and keeps adding states
                return "cancelled_alarm_keeps_recording_states", desc
            if rec_requested and names[:2] == ["created", "cancelled"] and "started" in tail \
                    and cls in ("EngineCommandNode", "UodCommandNode"):
                # cancel accepted while the line was visited but its command not yet started (one-tick window): only the
                # node flag is set, the already scheduled command request starts anyway
                return "command_cancelled_before_start_still_starts", desc
            if iid in shared_ids and cls in ("UodCommandNode", "EngineCommandNode"):
                # two CommandRequests under one instance id (visit_*CommandNode uses record.last_instance_id; stale
                # Watch/Alarm handler walking the same line, C02 finding): the second cancels/re-creates the first
                return "two_requests_share_one_instance_id", desc
            if cls == "UodCommandNode" and names[:first] == ["created"] and names[first] == "failed" and "started" in tail:
                # unparsable arguments: the request is dropped and marked failed, but the command instance created just
                # before parsing stays in uod.command_instances; the next request of that command re-uses it under the
                # old instance id, so its started state is booked on the failed instance
                return "uod_command_with_invalid_arguments_stays_registered", desc
            if cls == "UodCommandNode" and names == ["created", "cancelled", "failed"]:
                # same leak, next run/request: the stale command object carries the old instance id, marking it started
                # raises, the new request is cancelled and failed without ever having started
                return "uod_command_with_invalid_arguments_stays_registered", desc
            if cls == "UodCommandNode" and iid in tainted_ids and names[first] == "cancelled" \
                    and tail[0] in ("completed", "failed", "cancelled"):
                # same-tick burst of conflicting requests (C11.conflicting_requests_in_one_tick): the request was marked
                # cancelled while the instance of another request was finalized; it keeps executing and concludes again
                return "cancelled_request_keeps_executing_after_same_tick_conflict", desc
            older = [(o, on) for o, on in insts[:k] if len(on) > 1]     # older instances that got beyond 'created'
            booked_before_start = names[:first] == ["created"] and names[first] in ("completed", "cancelled")
            second_conclusion = k == len(insts) - 1 and tail[0] in ("completed", "cancelled") and \
                any("uodcommandset" in on or "internalenginecommandset" in on for _, on in older)
            older_open = [on for _, on in older if not any(n in CONCLUSIVE for n in on)]
            concluded_for_open_older = bool(older_open) and names[first] in ("completed", "cancelled")
            if older and (booked_before_start or second_conclusion or concluded_for_open_older):
                # the conclusion of another (older, really executing) instance of this line was booked on the record's
                # newest instance id (Tracking.mark_* use record.last_instance_id): either before that instance has
                # started, or as a second conclusion after its own, or while the older instance (e.g. of a concurrently
                # running stale Alarm handler) is still open and the newest instance goes on recording states
                return "conclusion_recorded_on_newer_instance_of_same_line", \
                    desc + f"; older instance of the same record: {older[-1][1]}"
            return None, desc
    return None, "no record with a state after a conclusive state found"


def misbooked_conclusions(records: list[tuple]) -> set:
    """instance ids that really executed (command set) but stay open because their completed/cancelled state was booked
    on a newer instance id of the same record (see classify_records)."""
    out = set()
    for name, cls, node_id, insts in records:
        for k, (iid, names) in enumerate(insts):
            if ("uodcommandset" in names or "internalenginecommandset" in names) and not any(n in CONCLUSIVE for n in names):
                for o, on in insts[k + 1:]:
                    if on[:1] == ["created"] and len(on) > 1 and on[1] in ("completed", "cancelled"):
                        out.add(iid)
    return out


UOD_NAMES = ("Short", "Long", "Long2", "Other", "Fail", "Set1", "SetPlain", "Drive1", "Set2", "Mode")


def std_conflicts(a: str, b: str) -> bool:
    return a == b or any(a in o and b in o for o in OVERLAP)


def tainted_by_bursts(rig: R.EngineRig) -> set:
    """instance ids touched by same-tick bursts of conflicting requests or by the Stop race (needs install_schedule_hook
    and REQS cleared at the start of the run)."""
    alive: set = set()
    alive_at: dict[int, set] = {}
    name_of: dict[str, str] = {}
    cur = None
    for ev in rig.cmdlog:
        if ev[0] != cur:
            cur = ev[0]
            alive_at[cur] = set(alive)
        name_of.setdefault(ev[3], ev[2])
        if ev[1] == "init":
            alive.add(ev[3])
        elif ev[1] == "fin":
            alive.discard(ev[3])
    reqs = list(REQS)
    b = burst_tainted(reqs, alive_at, name_of, std_conflicts, UOD_NAMES)
    out = set().union(*b.values()) if b else set()
    return out | stop_race_tainted(reqs, alive_at, name_of, std_conflicts, UOD_NAMES)


def classify_unproducible(rig: R.EngineRig, requested_ids=()) -> tuple[str | None, str]:
    tainted = tainted_by_bursts(rig) if _sched_hook else ()
    suffix, desc = classify_records(records_plain(rig), requested_ids, tainted, shared_instance_ids() if _sched_hook else ())
    return ("C15." + suffix if suffix else None), desc


def burst_tainted(reqs: list[tuple], alive_at_tick_start: dict, name_of: dict, conflicts, uod_names) -> dict:
    """tick -> instance ids tainted by a burst of >= 2 mutually conflicting UOD requests dequeued by the same
    command-manager tick (the requests themselves plus the conflicting instances alive at that tick)."""
    by_tick: dict[int, list] = {}
    for q in reqs:
        if q[1] in uod_names:
            by_tick.setdefault(q[0], []).append(q)
    burst = {}
    for t, qs in by_tick.items():
        grp = [q for q in qs if any(o is not q and conflicts(o[1], q[1]) for o in qs)]
        if len(grp) >= 2:
            tainted = {q[2] for q in grp}
            tainted |= {o for o in alive_at_tick_start.get(t, ()) if any(conflicts(name_of[o], q[1]) for q in grp)}
            burst[t] = tainted
    return burst


def check_runlog(rig: R.EngineRig, res, viol: list, requested_ids=(), completeness: bool = True):
    """One C15 evaluation (call after a tick or after a request). Appends (mech, msg) to viol.
    Returns the run log or None if it cannot be produced."""
    res.count("runlog_evaluations")
    try:
        rl = rig.e.tracking.get_runlog()
    except Exception as ex:
        mech, desc = classify_unproducible(rig, requested_ids)
        viol.append((mech, f"get_runlog raised {type(ex).__name__}({ex}) at tick {rig.k}: {desc}"))
        return None
    items = rl.items
    res.count("runlog_items_checked", len(items))
    ids = set()
    prev = None
    for it in items:
        if prev is not None and it.start < prev:
            viol.append(("C15.items_not_sorted_by_start", f"item {it.name!r} start {it.start} after {prev} (tick {rig.k})"))
        prev = it.start
        if it.id in ids:
            viol.append(("C15.duplicate_item_id", f"item id {it.id} ({it.name!r}) occurs twice (tick {rig.k})"))
        ids.add(it.id)
        if it.end is not None and it.end < it.start:
            viol.append(("C15.item_ends_before_start", f"item {it.name!r} start {it.start} end {it.end}"))
        if str(it.state) in CONCLUSIVE:
            res.count("conclusive_items_checked")
            if it.end is None:
                viol.append(("C15.conclusive_item_without_end", f"item {it.name!r} state {it.state} has no end"))
            if it.cancellable or it.forcible:
                viol.append(("C15.conclusive_item_still_offered",
                             f"item {it.name!r} state {it.state} cancellable={it.cancellable} forcible={it.forcible}"))
    if completeness:
        done = {}
        for it in items:
            if str(it.state) == "completed":
                done[it.name] = done.get(it.name, 0) + 1
        for n in all_known_nodes(rig):
            if not n.completed or isinstance(n, EXCLUDED_KINDS):
                continue
            name = n.runlog_name
            if name is None or name == "Stop" or n.instruction_name in ("Stop", "Restart"):
                continue
            res.count("completed_nodes_checked")
            if done.get(name, 0) == 0:
                viol.append((_classify_missing(rig, n), f"node {n.id} {type(n).__name__} {name!r} is completed but the run "
                             f"log has no completed item of that name (tick {rig.k})"))
    return rl


def _classify_missing(rig, n):
    rec = rig.e.tracking.runtimeinfo.get_record_by_node(n.id)
    if rec is None:
        return "C15.completed_node_without_record"
    names = [s.state_name.value for s in rec.states]
    if "completed" not in names:
        return "C15.completed_node_without_completed_state"
    # The record has a completed state but no completed item: the state follows the conclusion of its instance and is
    # skipped when the run log is rendered (before the run log tolerated such states it raised instead). Name the cause
    # with the same record classifier that is used for an unproducible run log, restricted to this node's record.
    own = [r for r in records_plain(rig) if r[2] == n.id]
    suffix, _ = classify_records(own, (), tainted_by_bursts(rig) if _sched_hook else (),
                                 shared_instance_ids() if _sched_hook else ())
    if suffix is not None:
        return "C15." + suffix
    return None


# ------------------------------------------------------------------------------------------------
# request-origin and cancel-failure instrumentation (wrappers record and delegate, results unchanged)
USER_IIDS: set[str] = set()            # instance ids of requests created by execute_control_command_from_user
CANCEL_MARK_FAILS: list[tuple] = []    # (tick, instance_id | None, node class, message) - mark_cancelled raised
_req_hooks = False


def install_request_hooks():
    global _req_hooks
    if _req_hooks:
        return
    _req_hooks = True
    from openpectus.lang.exec.commands import CommandRequest
    from openpectus.lang.exec.tracking import Tracking

    orig_from_user = CommandRequest.from_user

    def from_user(name, arguments, instance_id):
        USER_IIDS.add(instance_id)
        return orig_from_user(name, arguments, instance_id)
    CommandRequest.from_user = staticmethod(from_user)

    orig_mark_cancelled = Tracking.mark_cancelled

    def mark_cancelled(self, instance, update_node=True):
        try:
            return orig_mark_cancelled(self, instance, update_node)
        except Exception as ex:
            iid = getattr(instance, "instance_id", None)
            rec = self.get_record_by_instance(instance)
            CANCEL_MARK_FAILS.append((R.TICK[0], iid, rec.node_class_name if rec is not None else None, str(ex)[:120]))
            raise
    Tracking.mark_cancelled = mark_cancelled


def reset_request_hooks():
    USER_IIDS.clear()
    CANCEL_MARK_FAILS.clear()


REQS: list[tuple] = []      # (command-manager tick that dequeues it, name, instance_id, source)


def install_schedule_hook():
    """Record every CommandRequest handed to CommandManager.schedule together with the tick that will dequeue it."""
    global _sched_hook
    if _sched_hook:
        return
    _sched_hook = True
    from openpectus.engine.command_manager import CommandManager
    orig = CommandManager.schedule

    def schedule(self, req):
        clk = R._current_clock
        in_tick = bool(clk is not None and clk.in_tick)
        REQS.append((R.TICK[0] + (0 if in_tick else 1), req.name, req.instance_id, req.source))
        return orig(self, req)
    CommandManager.schedule = schedule


def stop_race_tainted(reqs: list[tuple], alive_at_tick_start: dict, name_of: dict, conflicts, uod_names,
                      init_ticks: dict | None = None) -> set:
    """instance ids touched by the Stop race: a UOD request queued *before* a Stop/Restart request that is dequeued by
    the same command-manager tick. Newer requests are put first, so the Stop's cancel phase runs before the command is
    created (cancel "by name" then hits nothing, or the instance of an older conflicting request); afterwards the
    command - or the older request re-creating its instance - starts and is never cancelled."""
    out: set = set()
    for i, q in enumerate(reqs):
        if q[1] not in ("Stop", "Restart"):
            continue
        for o in reqs[:i]:
            if o[0] == q[0] and o[1] in uod_names:
                out.add(o[2])
                out |= {a for a in alive_at_tick_start.get(q[0], ()) if a in name_of and conflicts(name_of[a], o[1])}
                if init_ticks:
                    # an older conflicting request that (re-)creates its instance in the Stop's cancel tick
                    out |= {a for a, ticks in init_ticks.items() if q[0] in ticks and conflicts(name_of[a], o[1])}
    return out


# ------------------------------------------------------------------------------------------------
# UOD with a caller-chosen set of overlap lists (C11 multi-overlap stratum). Additive: nothing above uses this.
def overlap_uod_factory(overlaps, long_n: int = 4, fail_at: int = 1):
    """uod_factory for R.EngineRig: the standard rig UOD (R.make_uod, same commands/callback log), but declared with the
    given overlap lists instead of the single [Long, Long2]. The lists are declared through the real
    UodBuilder.with_command_overlap, in the given order, right before the real UodBuilder.build runs."""
    from openpectus.lang.exec.uod import UodBuilder
    lists = [list(o) for o in overlaps]

    def factory(log):
        orig_build = UodBuilder.build

        def build(self):
            self.overlapping_command_names_lists.clear()
            for o in lists:
                self.with_command_overlap(list(o))
            return orig_build(self)
        UodBuilder.build = build
        try:
            return R.make_uod(log, long_n=long_n, fail_at=fail_at)
        finally:
            UodBuilder.build = orig_build
    return factory


def make_conflicts(overlaps):
    """conflict predicate of a UOD configuration: same name, or both names in ANY one declared overlap list"""
    sets = tuple(frozenset(o) for o in overlaps)

    def conflicts(a: str, b: str) -> bool:
        return a == b or any(a in o and b in o for o in sets)
    return conflicts


# ------------------------------------------------------------------------------------------------
# what one CommandManager._cancel_command call left behind (C10 classifier only; additive, nothing above uses this).
# The wrapper records and delegates, the result and every exception are passed through unchanged.
CANCEL_CALLS: list[tuple] = []   # (tick, request instance id, request name, command instance id | None,
#                                   command cancelled after the call, command finalized after the call,
#                                   Tracking.mark_cancelled raised during the call)
_cancel_call_hook = False


def install_cancel_call_hook():
    """Needs install_request_hooks (CANCEL_MARK_FAILS tells whether mark_cancelled raised inside the call)."""
    global _cancel_call_hook
    if _cancel_call_hook:
        return
    _cancel_call_hook = True
    from openpectus.engine.command_manager import CommandManager
    orig = CommandManager._cancel_command

    def _cancel_command(self, cmd_request, finalize=True):
        n0 = len(CANCEL_MARK_FAILS)
        try:
            cmd = self._get_command_instance(cmd_request.name)      # lookup by name, exactly as the real method does
        except Exception:
            cmd = None
        try:
            return orig(self, cmd_request, finalize)
        finally:
            CANCEL_CALLS.append((R.TICK[0], cmd_request.instance_id, cmd_request.name,
                                 getattr(cmd, "instance_id", None),
                                 bool(cmd is not None and cmd.is_cancelled()),
                                 bool(cmd is not None and cmd.is_finalized()),
                                 len(CANCEL_MARK_FAILS) > n0))
    CommandManager._cancel_command = _cancel_command


def cancel_refused_without_cancelling() -> set:
    """instance ids (of the request and of the command object found under its name) of _cancel_command calls in which
    Tracking.mark_cancelled raised and the command object was left NOT cancelled: the cancellation was aborted before
    command.cancel() ran, so nothing will ever cancel or finalize the command on behalf of that call."""
    out: set = set()
    for c in CANCEL_CALLS:
        if c[6] and c[3] is not None and not c[4]:
            out.add(c[1])
            out.add(c[3])
    return out


# ------------------------------------------------------------------------------------------------
# C10 failing-line stratum (additive: nothing above uses this). Method lines that fail when they are executed and put
# the run into the error pause, grouped by the way they fail. Every line was probed against the unchanged tree; the
# check counts per kind how often the error pause was really reached (REQUIRED), so a line that stops failing shows up
# as INCONCLUSIVE, never as silent loss of coverage.
FAIL_LINES: dict[str, tuple[str, ...]] = {
    "sim_inconvertible_unit": ("Simulate: FT01 = 5 kg", "Simulate: TT01 = 3 L/h", "Simulate: Out2 = 2 s",
                               "Simulate: FT01 = 2 degC"),
    "sim_unknown_unit": ("Simulate: FT01 = 5 foo", "Simulate: TT01 = 1 quux"),
    "sim_unit_on_unitless_tag": ("Simulate: X = 3 L", "Simulate: Out1 = 1 kg", "Simulate: Run Counter = 3 L",
                                 "Simulate: Plain = 2 s"),
    "sim_unit_on_categorical_tag": ("Simulate: Sel = 5 kg", "Simulate: Sel = 1 L/h"),
    "sim_unknown_tag": ("Simulate: Nope = 3", "Simulate off: Nope", "Simulate: Nope = 3 L/h"),
    "sim_malformed": ("Simulate", "Simulate: = 5", "Simulate off"),
    "uod_bad_arguments": ("Set2: abc", "Set2: 3 kg", "Set2", "Mode: C"),
    "uod_exec_raises": ("Set1: x", "Set1", "SetPlain: y", "Fail"),
    "engine_command_bad_arguments": ("Hold: -1s", "Pause: 5 x", "Hold: 3", "Stop: 3", "Restart: 1"),
    "interpreter_command_bad_arguments": ("Wait: abc", "Wait", "Wait: 3", "Run counter: x", "Base: foo"),
    "unknown_instruction": ("Foo", "Foo: 3", "0.x Mark: zz"),
    "bad_condition": ("Watch: Nope > 3", "Alarm: Nope > 3", "Watch: FT01 > 3 kg"),
    "undefined_macro": ("Call macro: Undefined", "Call macro"),
}
# valid lines put right before / after the failing line: simulations of every tag class and commands that keep running
FAIL_CONTEXT_SIM = ("Simulate: X = 2", "Simulate: FT01 = 3 L/h", "Simulate: Sel = B", "Simulate: TT01 = 30 degC",
                    "Simulate: Out1 = 4", "Simulate: Run Counter = 7")
FAIL_CONTEXT_CMD = ("Long", "Long2", "Other", "Drive1")


def select_tag_uod_factory(long_n: int = 4, fail_at: int = 1):
    """uod_factory for R.EngineRig: the standard rig UOD (R.make_uod, same commands/callback log) plus one categorical
    tag `Sel` (SelectTag, choices A/B, no unit), added through the real UodBuilder.with_tag right before the real
    UodBuilder.build runs."""
    from openpectus.lang.exec.uod import UodBuilder
    from openpectus.lang.exec.tags_impl import SelectTag

    def factory(log):
        orig_build = UodBuilder.build

        def build(self):
            self.with_tag(SelectTag("Sel", value="A", unit=None, choices=["A", "B"]))
            return orig_build(self)
        UodBuilder.build = build
        try:
            return R.make_uod(log, long_n=long_n, fail_at=fail_at)
        finally:
            UodBuilder.build = orig_build
    return factory


def append_or_insert_lines(text: str, at: int, new_lines: list[str]) -> str:
    """Insert `new_lines` (in order) before the `at`-th non-blank, non-comment line with that line's indentation; when
    there is no such line they are appended at indentation 0."""
    lines = text.split("\n")
    idx = [i for i, ln in enumerate(lines) if ln.strip() and not ln.strip().startswith("#")]
    if at >= len(idx):
        body = lines[:-1] if lines and lines[-1] == "" else lines
        return "\n".join(body + list(new_lines)) + "\n"
    i = idx[at]
    ind = len(lines[i]) - len(lines[i].lstrip(" "))
    lines[i:i] = [" " * ind + ln for ln in new_lines]
    return "\n".join(lines)
