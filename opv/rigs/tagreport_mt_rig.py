"""Two-thread tag-report rig for C36 (new file; tagreport_rig.py / engine_rig.py are used unchanged).

Production layout: the engine's timer thread runs `Engine.tick()` (which ends with `notify_tag_updates()` putting the
live Tag objects on `engine.tag_updates`) while the runner's asyncio thread drains that queue in
`EngineMessageBuilder.collect_tag_updates`. This rig reproduces the layout with a *controlled* interleaving:

* every tick of the run executes on a dedicated engine thread (`EngineThread`); the report builder runs on the thread
  of the shard. Exactly one of the two runs at any moment: the other one is parked on a condition variable.
* yield points of the report builder (attached from the harness, nothing in /repo is edited):
    - "get":  `engine.tag_updates.get` is shadowed by an instance attribute (Queue.get_nowait calls self.get), so every
              attempt to take an entry - including the one that finds the queue empty - first passes the scheduler;
    - "conv": `Tag.as_readonly` is wrapped (record + delegate); a call made by the builder thread during a drain passes
              the scheduler before the tag is read.
  At a yield point the schedule (derived from the case's `mt_seed`, no wall clock) lets the engine thread run
  0..n *complete* ticks; the builder continues when they are done. Positions are classified as
  before_first_get / between_conversions (>= 1 entry taken, queue not empty) / after_last (>= 1 entry taken, queue
  empty: the next get would have ended the drain) / get_to_conversion.
* `engine.tag_updates.put` is shadowed the same way (record + delegate) to count tags that are queued again by a
  mid-drain tick after the builder had already converted them (with a value different from the converted one).
* liveness is a wall-clock hang guard only: if the engine thread does not hand control back within HANG_GUARD_S the run
  raises HangGuard from harness code => the shard crashes outside /repo => INCONCLUSIVE, never a verdict.
"""
from __future__ import annotations

import os
import random
import threading

from opv.rigs import engine_rig as R
from opv.rigs import tagreport_rig as TR

from openpectus.lang.exec.tags import Tag

HANG_GUARD_S = 120.0
MODES = ("first", "last", "rand", "rand", "every")
POSITIONS = ("before_first_get", "between_conversions", "after_last", "get_to_conversion")


class HangGuard(RuntimeError):
    pass


_ORIG_AS_READONLY = Tag.as_readonly
_ACTIVE: list = [None]          # the Drain that currently owns the yield points (or None)
_installed = False


def _as_readonly(self):
    d = _ACTIVE[0]
    if d is not None and threading.get_ident() == d.builder_ident:
        d.yield_point("conv")
        ro = _ORIG_AS_READONLY(self)
        d.conv_value[id(self)] = ro.value
        return ro
    return _ORIG_AS_READONLY(self)


def install():
    global _installed
    if _installed:
        return
    _installed = True
    Tag.as_readonly = _as_readonly      # type: ignore


class EngineThread:
    """Runs every tick of a run. `run_ticks(n)` is called on the other thread and returns when n complete ticks were
    executed here (fewer if the run ended)."""

    def __init__(self, step):
        self.step = step                # () -> bool: one complete tick incl. the rig's bookkeeping; False = run is over
        self.cv = threading.Condition()
        self.todo = 0
        self.last_done = 0
        self.stop = False
        self.hang = False
        self.error: BaseException | None = None
        self.ident = None
        self.thread = threading.Thread(target=self._loop, daemon=True, name="opv-engine-thread")
        self.thread.start()

    def _loop(self):
        self.ident = threading.get_ident()
        while True:
            with self.cv:
                while self.todo == 0 and not self.stop:
                    self.cv.wait()
                if self.stop:
                    return
                n = self.todo
            done = 0
            try:
                for _ in range(n):
                    if not self.step():
                        break
                    done += 1
            except BaseException as ex:     # harness trouble; re-raised on the controlling thread
                self.error = ex
            with self.cv:
                self.last_done = done
                self.todo = 0
                self.cv.notify_all()

    def run_ticks(self, n: int) -> int:
        if n <= 0 or self.hang or self.error is not None:
            return 0
        with self.cv:
            self.todo = n
            self.cv.notify_all()
            ok = self.cv.wait_for(lambda: self.todo == 0, HANG_GUARD_S)
        if not ok:
            self.hang = True
            return 0
        return self.last_done

    def close(self):
        with self.cv:
            self.stop = True
            self.cv.notify_all()
        self.thread.join(5.0)


class Drain:
    """Scheduler of one report: decides at every yield point how many complete ticks the engine thread runs."""

    def __init__(self, eng: EngineThread, q, mode: str, budget: int, rnd: random.Random):
        self.eng = eng
        self.q = q
        self.mode = mode                # "quiet" | one of MODES
        self.budget = budget
        self.rnd = rnd
        self.builder_ident = threading.get_ident()
        self.n_yields = 0
        self.n_got = 0
        self.got_ids: set[int] = set()
        self.conv_value: dict[int, object] = {}
        self.fired: list[tuple[str, int]] = []      # (position class, ticks completed there)
        self.mid_ticks = 0
        self.requeued = 0               # put of a tag that this drain had already taken from the queue
        self.requeued_new_value = 0     # ... and converted to a value that is no longer the tag's value
        self.requeued_names: set[str] = set()

    def yield_point(self, kind: str):
        self.n_yields += 1
        if self.mode == "quiet" or self.budget <= 0:
            return
        if kind == "conv":
            pos = "get_to_conversion"
        elif self.n_got == 0:
            pos = "before_first_get"
        elif self.q.qsize() == 0:
            pos = "after_last"
        else:
            pos = "between_conversions"
        if self.mode == "first":
            fire = pos == "before_first_get"
        elif self.mode == "last":
            fire = pos == "after_last"
        elif self.mode == "every":
            fire = True
        else:
            fire = self.rnd.random() < 0.3
        if not fire:
            return
        n = 1 if self.mode == "every" else min(self.budget, self.rnd.choice((1, 1, 1, 2, 3)))
        self.budget -= n
        done = self.eng.run_ticks(n)
        if done:
            self.mid_ticks += done
            self.fired.append((pos, done))

    def on_got(self, tag):
        self.n_got += 1
        self.got_ids.add(id(tag))

    def on_put(self, tag):
        if threading.get_ident() == self.builder_ident:
            return                      # notify_all_tags() of a snapshot report
        if id(tag) in self.got_ids:
            self.requeued += 1
            if id(tag) in self.conv_value and TR._neq(_ORIG_AS_READONLY(tag).value, self.conv_value[id(tag)]):
                self.requeued_new_value += 1
                self.requeued_names.add(str(tag.name))


def hook_queue(q):
    """Shadows get / put of this one queue object (record + delegate)."""
    orig_get, orig_put = q.get, q.put

    def get(block=True, timeout=None):
        d = _ACTIVE[0]
        if d is not None and threading.get_ident() == d.builder_ident:
            d.yield_point("get")
            item = orig_get(block, timeout)         # raises Empty at the end of the drain
            d.on_got(item)
            return item
        return orig_get(block, timeout)

    def put(item, block=True, timeout=None):
        d = _ACTIVE[0]
        if d is not None:
            d.on_put(item)
        return orig_put(item, block, timeout)
    q.get = get
    q.put = put


class MtReport:
    __slots__ = ("index", "after_tick", "end_tick", "kind", "mode", "entries", "tags", "fired", "mid_ticks",
                 "mid_tick_numbers", "requeued", "requeued_new_value", "requeued_names", "n_yields", "n_got")


class MtRun:
    def __init__(self):
        self.reports: list[MtReport] = []
        self.ticks = 0
        self.tick_exceptions: list = []
        self.all_names: list[str] = []


def gen_case(rnd: random.Random, max_depth: int = 3, max_ticks: int = 110) -> dict:
    case = TR.gen_case(rnd, max_depth, max_ticks)
    case["mt_seed"] = rnd.getrandbits(40)
    return case


def run_case(case: dict, scratch: str, case_no: int = 0) -> MtRun:
    import openpectus.engine.archiver as A
    from openpectus.engine.engine_message_builder import EngineMessageBuilder

    TR.install_tag_hooks()
    install()
    run = MtRun()
    srnd = random.Random(case["mt_seed"])
    if case.get("archiver"):
        d = os.path.join(scratch, f"arch{case_no}")
        os.makedirs(d, exist_ok=True)
        A.__file__ = os.path.join(d, "archiver.py")
    TR.LOG.reset()
    TR.LOG.on = True
    rig = None
    eng = None
    try:
        rig = R.EngineRig(case["text"], enable_archiver=bool(case.get("archiver")),
                          uod_factory=TR.uod_factory(case.get("uod", "vol"), case.get("cv", 2.0)))
        if case.get("archiver"):
            ar = rig.e._system_tags["Archive filename"]
            assert ar.data_path.startswith(scratch), ar.data_path
        e = rig.e
        hook_queue(e.tag_updates)
        mb = EngineMessageBuilder(e, "", False)
        all_tags = list(e._iter_all_tags())
        run.all_names = [str(t.name) for t in all_tags]
        user = list(case.get("user") or [])
        st = {"k": 0, "last_ev": 0, "stop_at": None, "over": False}

        def step() -> bool:
            """one complete tick, executed on the engine thread (same per-tick script as tagreport_rig.run_case)"""
            if st["over"] or st["k"] >= case["max_ticks"]:
                st["over"] = True
                return False
            k = st["k"]
            while user and user[0][0] <= k + 1:
                rig.user(user.pop(0)[1])
            rig.hw.inputs["FT01"] = case["traj"][min(k, len(case["traj"]) - 1)]
            rig.hw.inputs["Tot"] = float(case["tot"][min(k, len(case["tot"]) - 1)])
            n0 = len(R.TRACE)
            rig.tick(catch=True)
            k += 1
            st["k"] = k
            if rig.tick_exc:
                run.tick_exceptions = list(rig.tick_exc)
                st["over"] = True
                return True
            if len(R.TRACE) != n0 or (rig.cmdlog and rig.cmdlog[-1][0] == rig.k):
                st["last_ev"] = k
            if st["stop_at"] is None and (k - st["last_ev"] >= 20 and k >= 30 and not user or rig.errors):
                st["stop_at"] = k + 9
            if st["stop_at"] is not None and k >= st["stop_at"]:
                st["over"] = True
            return True

        eng = EngineThread(step)

        def check_guard():
            if eng.hang:
                raise HangGuard(f"engine thread did not hand control back within {HANG_GUARD_S}s (tooling, no verdict)")
            if eng.error is not None:
                raise RuntimeError(f"harness error on the engine thread: {eng.error!r}")

        def take_report(kind: str, mode: str):
            budget = 0 if mode == "quiet" else srnd.choice((1, 2, 3, 4, 6))
            dr = Drain(eng, e.tag_updates, mode, budget, random.Random(srnd.getrandbits(32)))
            k0 = rig.k
            _ACTIVE[0] = dr
            try:
                if kind == "snap":
                    msg = mb.create_tag_updates_snapshot_msg()
                else:
                    msg = mb.create_tag_updates_msg(None)
            finally:
                _ACTIVE[0] = None
            check_guard()
            rp = MtReport()
            rp.index = len(run.reports)
            rp.after_tick, rp.end_tick, rp.kind, rp.mode = k0, rig.k, kind, mode
            rp.entries = [] if msg is None else [(str(tv.name), tv.value) for tv in msg.tags]
            rp.fired, rp.mid_ticks = dr.fired, dr.mid_ticks
            rp.mid_tick_numbers = list(range(k0 + 1, rig.k + 1))
            rp.requeued, rp.requeued_new_value = dr.requeued, dr.requeued_new_value
            rp.requeued_names = sorted(dr.requeued_names)
            rp.n_yields, rp.n_got = dr.n_yields, dr.n_got
            tags = {}
            for t in all_tags:              # nothing is running now: the engine thread is parked
                info = TR.LOG.get(t)
                tags[str(t.name)] = {
                    "value": TR._norm(_ORIG_AS_READONLY(t).value), "cls": type(t).__name__,
                    "chg_tick": info.chg_tick, "chg_site": info.chg_site, "chg_unmask": info.chg_unmask,
                    "n_notified_since_report": info.n_notified_since_report,
                    "n_chg_since_report": info.n_chg_since_report,
                }
                info.n_chg_since_report = 0
                info.n_notified_since_report = 0
                info.chg_ticks_since_report = set()
            rp.tags = tags
            run.reports.append(rp)

        take_report("snap", "quiet")
        rig.user("Start")
        for gap, kind in case["reports"]:
            eng.run_ticks(gap)
            check_guard()
            if st["over"]:
                break
            if srnd.random() < 0.25:
                take_report(kind, "quiet")
            else:
                take_report(kind, srnd.choice(MODES))
                if not st["over"]:
                    eng.run_ticks(srnd.choice((0, 0, 0, 1, 2)))
                    check_guard()
                take_report("inc", "quiet")     # the quiescent follow-up report
            if st["over"]:
                break
        take_report("inc", "quiet")
        take_report("snap", "quiet")
        run.ticks = st["k"]
    finally:
        _ACTIVE[0] = None
        TR.LOG.on = False
        if eng is not None:
            eng.close()
        if rig is not None:
            rig.close()
        else:
            R.install_virtual_time(None)
    return run
