"""Helpers shared by the live-edit / injection checks (C01, C14). Builds on engine_rig without changing it.

* interpreter-tick counter (wrapper on PInterpreter.tick looked up at call time; delegates unchanged)
* restricted method generator (constructs whose effects do not depend on *when* a line runs, see C01/C14 RULE)
* deep observable snapshot of an engine (for "a rejected edit leaves no trace")
* per-tick digest of the observable run (for "the continuation equals the run without the attempt")
* per-line effect extraction (starts per node id from TRACE, Mark labels, UOD command log)
"""
from __future__ import annotations

import random

from opv.gen_pcode import Gen
from opv.rigs import engine_rig as R

import openpectus.lang.model.ast as p
from openpectus.lang.exec.pinterpreter import PInterpreter

ITICKS = [0]            # number of PInterpreter.tick invocations (any interpreter instance) since reset
ITICK_AT: list[int] = []   # rig tick numbers at which an interpreter tick ran
_wrapped = False


def install_interp_counter():
    global _wrapped
    if _wrapped:
        return
    _wrapped = True
    orig = PInterpreter.tick

    def tick(self, tick_time, tick_number, _orig=orig):
        ITICKS[0] += 1
        ITICK_AT.append(R.TICK[0])
        return _orig(self, tick_time, tick_number)
    PInterpreter.tick = tick  # type: ignore


def reset_interp_counter():
    ITICKS[0] = 0
    ITICK_AT.clear()


# ------------------------------------------------------------------------------------------------ generator
METHOD_UOD = ("Short", "Long", "Long2", "Short", "Set1: 3", "Set1: 5", "Set2: 2.5 L/h", "SetPlain: 1")   # never Other, Mode
WATCH_CONDS = ("FT01 > 1 L/h", "FT01 > 3 L/h", "FT01 >= 5 L/h", "X = 0", "X = 2", "Run Counter >= 0")
ALARM_CONDS = ("FT01 > 3 L/h", "FT01 > 5 L/h", "X = 1", "X = 4")


def _scopes(text: str):
    """[(line index, indent, stripped text, [ancestor opener keywords])] from indentation only."""
    out = []
    stack: list[tuple[int, str]] = []
    for i, ln in enumerate(text.split("\n")):
        s = ln.strip()
        if s == "" or s.startswith("#"):
            out.append((i, None, s, [k for _, k in stack]))
            continue
        ind = len(ln) - len(ln.lstrip(" "))
        while stack and stack[-1][0] >= ind:
            stack.pop()
        out.append((i, ind, s, [k for _, k in stack]))
        kw = s.split(":")[0].strip()
        # a threshold prefix ("0.5 Mark: a") never precedes an opener in this generator
        if kw in ("Block", "Watch", "Alarm", "Macro"):
            stack.append((ind, kw))
    return out


def structurally_ok(text: str) -> bool:
    """Rejects the shapes for which C02 recorded genuine engine defects that would blur a differential comparison:
    Watch/Alarm nested in an Alarm or macro body, macro called from an interrupt body (could run concurrently with a
    call from the main path), a multi-tick UOD command inside an Alarm body."""
    for _, ind, s, anc in _scopes(text):
        if ind is None:
            continue
        kw = s.split(":")[0].strip()
        if kw in ("Watch", "Alarm") and ("Alarm" in anc or "Macro" in anc):
            return False
        if kw == "Call macro" and ("Watch" in anc or "Alarm" in anc):
            return False
        if "Alarm" in anc and kw in ("Long", "Long2", "Other", "Drive1"):
            return False
    return True


def gen_method(rnd: random.Random, allow, max_depth=3, maxlen=7, tries=50) -> str:
    """Method whose effects are independent of absolute timing: Base stays s, conditions are constant over the run
    (FT01 is held constant by the caller, X is never simulated), thresholds <= 1.5 s."""
    for _ in range(tries):
        g = Gen(rnd, allow=allow, max_depth=max_depth, uod_cmds=METHOD_UOD, watch_conds=WATCH_CONDS,
                alarm_conds=ALARM_CONDS, thr_values=("0.2", "0.5", "1", "0", "1.5"))
        text = g.program(rnd.randint(3, maxlen))
        if structurally_ok(text):
            return text
    return "Base: s\nMark: m1\nWait: 0.5s\nMark: m2\n"


# ------------------------------------------------------------------------------------------------ observation
def method_lines(rig) -> list[tuple[str, str]]:
    return [(ln.id, ln.content) for ln in rig.e.method_manager._method.lines]


def state_sets(ms) -> tuple[frozenset, frozenset, frozenset]:
    return frozenset(ms.started_line_ids), frozenset(ms.executed_line_ids), frozenset(ms.failed_line_ids)


def runlog_shape(rig):
    try:
        rl = rig.runlog()
    except Exception as ex:  # C15's business; the shape is then "raises"
        return ("raises", type(ex).__name__)
    out = []
    for it in rl.items:
        out.append((it.id, it.name, str(it.state), it.start, it.end, it.progress, it.cancellable, it.forcible,
                    it.cancelled, it.forced))
    return tuple(out)


def snapshot(rig) -> dict:
    """Everything a user / the aggregator / the next tick could observe, taken between ticks."""
    e = rig.e
    mm = e.method_manager
    ms = mm.get_method_state()
    interp = e.interpreter
    cm = e._command_manager
    snap = {
        "method_lines": tuple(method_lines(rig)),
        "method_version": mm._method.version,
        "program_version": mm.program.version,
        "method_state": (tuple(ms.started_line_ids), tuple(ms.executed_line_ids), tuple(ms.injected_line_ids),
                         tuple(ms.failed_line_ids)),
        "runlog": runlog_shape(rig),
        "tags": tuple(sorted((t.name, repr(t.get_value()), t.unit) for t in e._iter_all_tags())),
        "interrupts": tuple(i.node.id for i in interp.interrupts),
        "interrupt_objs": tuple(id(i) for i in interp.interrupts),
        "interpreter_obj": id(interp),
        "program_obj": id(interp._program),
        "mm_program_obj": id(mm.program),
        "tracking_obj": id(e.tracking),
        "command_manager_obj": id(cm),
        "cmd_executing": tuple((r.name, r.arguments, r.instance_id) for r in cm.cmd_executing),
        "cmd_queue": tuple((r.name, r.arguments, r.instance_id) for r in list(cm.cmd_queue.queue)),
        "command_instances": tuple(sorted((k, v.instance_id, v.get_iteration_count()) for k, v in e.uod.command_instances.items())),
        "run_flags": (e._runstate_started, e._runstate_paused, e._runstate_holding, e._runstate_stopping),
        "error": repr(e.get_error_state_exception()),
        "tree_state": tuple(sorted((k, tuple(sorted((a, repr(b)) for a, b in v.items())))
                                   for k, v in interp._program.extract_tree_state().items())),
        "macros": tuple(sorted(interp._program.macros.keys())),
    }
    return snap


def snapshot_diff(a: dict, b: dict) -> list[str]:
    return [k for k in a if a[k] != b.get(k)]


UUID_TAGS = ("Run Id",)


def digest(rig, cmd_from: int) -> tuple:
    """Per-tick observable record without process-unique ids (uuids). cmd_from = index into rig.cmdlog."""
    e = rig.e
    ms = e.method_manager.get_method_state()
    tags = tuple((t.name, repr(t.get_value())) for t in sorted(e._iter_all_tags(), key=lambda t: t.name)
                 if t.name not in UUID_TAGS)
    cmds = tuple((c[0], c[1], c[2], c[4]) for c in rig.cmdlog[cmd_from:])
    return (rig.state, tuple(rig.marks()), tuple(ms.started_line_ids), tuple(ms.executed_line_ids),
            tuple(ms.failed_line_ids), tuple(ms.injected_line_ids), cmds, tags, tuple(rig.hw.mem.items()))


def digest_diff(a: tuple, b: tuple) -> str:
    names = ["System State", "marks", "started_line_ids", "executed_line_ids", "failed_line_ids", "injected_line_ids",
             "uod callbacks", "tags", "hardware registers"]
    for n, x, y in zip(names, a, b):
        if x != y:
            if n == "tags":
                dx = dict(x)
                dy = dict(y)
                d = {k: (dx.get(k), dy.get(k)) for k in set(dx) | set(dy) if dx.get(k) != dy.get(k)}
                return f"tags differ: {sorted(d.items())[:4]}"
            return f"{n} differ: {x!r:.200} vs {y!r:.200}"
    return ""


def actual_started(prog: p.ProgramNode) -> dict[str, tuple[bool, bool, bool]]:
    """node id -> (started, completed, failed) read from the nodes of a program (the interpreter's own)."""
    return {n.id: (bool(n.started), bool(n.completed), bool(n.failed)) for n in prog.get_all_nodes()}


def is_ws(node) -> bool:
    return isinstance(node, p.WhitespaceNode)


def in_repeatable(node) -> bool:
    """Node lies in (or is) a scope that legitimately runs more than once: Alarm (re-arm) or macro body (calls)."""
    return isinstance(node, (p.AlarmNode, p.MacroNode)) or any(isinstance(a, (p.AlarmNode, p.MacroNode)) for a in node.parents)
