"""Frontend-side aggregator rig (C31, C33, C37, C38).

Real `Aggregator` + `AggregatorMessageHandlers` + `AggregatorDispatcher` (rpc channels mocked exactly as
`openpectus/test/aggregator/test_aggregator.py` does), real `FrontendPublisher` (its `PubSubEndpoint` is only used
in-process: subscriptions are made on the real notifier, disconnects run the endpoint's real on_disconnect handler
list), scratch SQLite *file* under `tempfile.mkdtemp(prefix="opv-")`, removed in `close()`.

Own file on purpose: `opv/rigs/aggregator_rig.py` is written by somebody else in parallel and nothing here depends
on it.
"""
from __future__ import annotations

import asyncio
import json
import os
import shutil
import tempfile
from typing import Any, Awaitable, Callable
from unittest.mock import AsyncMock, Mock


class RpcScript:
    """Scheduler-controlled engine side of one rpc channel.

    `dispatch_message_async` (what `AggregatorDispatcher.rpc_call` awaits) records the call and suspends on a future
    that only the harness resolves. Nothing here ever sleeps or looks at a clock."""

    def __init__(self):
        self.calls: list[dict] = []          # {"n", "msg", "future", "on_issue"}
        self.on_issue: Callable[[dict], None] | None = None

    async def dispatch_message_async(self, message_json: dict[str, Any]):
        fut = asyncio.get_running_loop().create_future()
        call = {"n": len(self.calls), "msg": message_json, "future": fut}
        self.calls.append(call)
        if self.on_issue is not None:
            self.on_issue(call)
        return await fut

    def pending(self) -> list[dict]:
        return [c for c in self.calls if not c["future"].done()]


def rpc_reply(message) -> Any:
    """Wire form of an engine reply, as `rpc_call` expects it."""
    from fastapi_websocket_rpc.schemas import RpcResponse
    from openpectus.protocol.serialization import serialize
    return RpcResponse[str | None](result=json.dumps(serialize(message)), result_type=None)


class FrontendRig:
    def __init__(self, real_webpush: bool = False, fast_sqlite: bool = True):
        from openpectus.aggregator.aggregator import Aggregator
        from openpectus.aggregator.aggregator_message_handlers import AggregatorMessageHandlers
        from openpectus.aggregator.data import database
        import openpectus.aggregator.data.models as DMdl
        from openpectus.aggregator.frontend_publisher import FrontendPublisher
        from openpectus.protocol.aggregator_dispatcher import AggregatorDispatcher

        self.tmp = tempfile.mkdtemp(prefix="opv-")
        self.db_path = os.path.join(self.tmp, "agg.sqlite3")
        database.configure_db("sqlite:///" + self.db_path)
        if fast_sqlite:
            # durability of the scratch file is irrelevant; the queries and the schema are what is exercised
            from sqlalchemy import event

            @event.listens_for(database._engine, "connect")
            def _pragmas(dbapi_con, _rec):  # pragma: no cover - trivial
                cur = dbapi_con.cursor()
                cur.execute("PRAGMA synchronous=OFF")
                cur.execute("PRAGMA journal_mode=MEMORY")
                cur.close()
        DMdl.DBModel.metadata.create_all(database._engine)  # type: ignore
        self.database = database
        self.dispatcher = AggregatorDispatcher()
        self.publisher = FrontendPublisher()
        self.sent: list[tuple] = []   # (subscription db id, endpoint, user_id, notification) seen by the fake sender
        if real_webpush:
            from openpectus.aggregator.webpush_publisher import WebPushPublisher
            keys = os.path.join(self.tmp, "keys")
            os.makedirs(keys)
            self.webpush = WebPushPublisher(keys)
            self.webpush.wp = object()  # type: ignore  # truthy stub: the publisher must not bail out for lack of keys

            async def fake_post(subscription, web_push_repository, notification):
                self.sent.append((subscription.id, subscription.endpoint, subscription.user_id, notification))
            self.webpush._post_webpush = fake_post  # type: ignore  # instance attribute, class untouched
        else:
            self.webpush = Mock(publish_message=AsyncMock(), publish_test_message=AsyncMock())
        self.agg = Aggregator(self.dispatcher, self.publisher, self.webpush)
        self.handlers = AggregatorMessageHandlers(self.agg)
        self.ff = self.agg.from_frontend
        self.scripts: dict[str, RpcScript] = {}
        self.channels: dict[str, Any] = {}

    # ---------------------------------------------------------------- engine side
    @staticmethod
    def register_msg(computer: str, uod: str):
        import openpectus.protocol.engine_messages as EM
        from openpectus import __version__
        return EM.RegisterEngineMsg(computer_name=computer, uod_name=uod, uod_author_name="author",
                                    uod_author_email="author@example.org", uod_filename="uod.py", location="lab",
                                    engine_version=__version__)

    async def register(self, computer: str, uod: str):
        assert self.dispatcher._register_handler is not None
        return await self.dispatcher._register_handler(self.register_msg(computer, uod))

    async def connect(self, engine_id: str):
        """Opens the (mock) rpc channel of a registered engine, like AggregatorTest.connectRpc."""
        from fastapi_websocket_rpc.schemas import RpcResponse
        script = RpcScript()
        response = RpcResponse[str | None](result=engine_id, result_type=None)
        channel = Mock(close=AsyncMock(), other=Mock(get_engine_id_async=AsyncMock(return_value=response),
                                                     dispatch_message_async=script.dispatch_message_async))
        await self.dispatcher._on_delayed_client_connect(channel)
        self.scripts[engine_id] = script
        self.channels[engine_id] = channel
        return channel

    async def disconnect_engine(self, engine_id: str):
        channel = self.dispatcher._engine_id_channel_map[engine_id]
        with self.database.create_scope():
            await self.dispatcher.on_client_disconnect(channel)

    async def disconnect_channel(self, channel):
        """The websocket behind `channel` closes (whether or not the dispatcher ever attached it to an engine id)."""
        with self.database.create_scope():
            await self.dispatcher.on_client_disconnect(channel)

    # ---------------------------------------------------------------- frontend pubsub side
    async def ws_subscribe(self, conn_id: str, topics: list[str]):
        """A frontend websocket `conn_id` subscribes to pubsub topics: the real notifier runs the registered
        subscribe-event callbacks (FromFrontend.user_subscribed_pubsub)."""
        async def cb(subscription, data):
            return None
        await self.publisher.pubsub_endpoint.notifier.subscribe(conn_id, list(topics), cb)

    async def ws_disconnect(self, conn_id: str):
        """The websocket closes: run the endpoint's real disconnect handler list the way RpcChannel.on_disconnect
        does (asyncio.gather over the handlers with the channel). Exceptions propagate to the caller."""
        channel = Mock(id=conn_id)
        handlers = self.publisher.pubsub_endpoint.endpoint._on_disconnect
        await asyncio.gather(*(h(channel) for h in handlers))

    # ---------------------------------------------------------------- misc
    async def settle(self, rounds: int = 3):
        """Lets fire-and-forget publish tasks run; step-counted, never timed."""
        for _ in range(rounds):
            await asyncio.sleep(0)

    async def drain_tasks(self, limit: int = 200):
        """Awaits every task other than the caller until none is left (bounded number of rounds)."""
        me = asyncio.current_task()
        for _ in range(limit):
            others = [t for t in asyncio.all_tasks() if t is not me and not t.done()]
            if not others:
                return True
            await asyncio.gather(*others, return_exceptions=True)
        return False

    def close(self):
        try:
            if self.database._engine is not None:
                self.database._engine.dispose()
        finally:
            shutil.rmtree(self.tmp, ignore_errors=True)


def lean_publisher():
    """FrontendPublisher with its real methods and a real PubSubEndpoint, but without the two FastAPI routes that
    __init__ registers (route/schema construction costs ~1 ms and plays no role in-process). Used where a fresh
    publisher is needed per history."""
    from fastapi_websocket_pubsub import PubSubEndpoint
    from openpectus.aggregator.frontend_publisher import FrontendPublisher

    class LeanFrontendPublisher(FrontendPublisher):
        def __init__(self):  # noqa - deliberately not calling super().__init__
            self.on_disconnect_callbacks = []
            self.pubsub_endpoint = PubSubEndpoint(on_disconnect=[self.on_disconnect])  # type: ignore
    return LeanFrontendPublisher()


def run(coro_fn: Callable[[], Awaitable[Any]]):
    """Runs one coroutine on a private event loop. No timers are ever armed by the rigs, so the loop never sleeps."""
    loop = asyncio.new_event_loop()
    try:
        asyncio.set_event_loop(loop)
        return loop.run_until_complete(coro_fn())
    finally:
        try:
            pend = [t for t in asyncio.all_tasks(loop) if not t.done()]
            for t in pend:
                t.cancel()
            if pend:
                loop.run_until_complete(asyncio.gather(*pend, return_exceptions=True))
        finally:
            asyncio.set_event_loop(None)
            loop.close()


# ----------------------------------------------------------------------------------------------------------------------
# appended for C38 (connection histories): a lightweight websocket stand-in and the endpoint's way of closing it

class WsChannel:
    """Stand-in for the `RpcChannel` of one engine websocket: exactly what `AggregatorDispatcher` touches -
    `close()`, `other.get_engine_id_async()`, `other.dispatch_message_async(message_json=...)`. Cheaper than a Mock
    (no magic-method setup), hashable and compared by identity like the real channel."""

    class _Other:
        def __init__(self, owner: "WsChannel"):
            self._owner = owner
            self.dispatch_message_async = owner.script.dispatch_message_async

        async def get_engine_id_async(self):
            from fastapi_websocket_rpc.schemas import RpcResponse
            return RpcResponse[str | None](result=self._owner.reported_id, result_type=None)

    def __init__(self, reported_id: str | None):
        self.reported_id = reported_id
        self.script = RpcScript()
        self.close_calls = 0            # how often the server side closed this websocket
        self.default_response_timeout = None
        self.other = WsChannel._Other(self)

    async def close(self):
        self.close_calls += 1


async def ws_open(rig: FrontendRig, reported_id: str | None) -> WsChannel:
    """A websocket opens and answers `get_engine_id_async` with `reported_id` (the body of the task that
    `AggregatorDispatcher.on_client_connect` spawns)."""
    ch = WsChannel(reported_id)
    await rig.dispatcher._on_delayed_client_connect(ch)  # type: ignore
    return ch


async def ws_closed(rig: FrontendRig, channel) -> BaseException | None:
    """The websocket behind `channel` closes, the way the real server handles it:
    `WebsocketRPCEndpoint.main_loop` -> `handle_disconnect` -> `RpcChannel.on_disconnect` = `asyncio.gather` over the
    endpoint's on_disconnect handler list (here: `AggregatorDispatcher.on_client_disconnect`); an exception raised by
    a handler ends in main_loop's outer `except:` which logs "Failed to serve" and goes on serving the other
    connections. The swallowed exception is returned (None if the handlers returned normally)."""
    handlers = rig.dispatcher.endpoint._on_disconnect
    try:
        with rig.database.create_scope():
            await asyncio.gather(*(h(channel) for h in handlers))
    except Exception as ex:  # noqa - mirrors the endpoint
        return ex
    return None


# ----------------------------------------------------------------------------------------------------------------------
# appended for C31 (client-boundary histories): the real FastAPI application of AggregatorServer driven in-process over
# HTTP (httpx ASGI transport, same event loop as the harness), engine sessions with a gated, closable rpc channel

class ClosableWsChannel(WsChannel):
    """WsChannel whose engine end refuses new rpc calls once the websocket is closed (a real RpcChannel raises
    RpcChannelClosedException for calls on a closed channel)."""

    def __init__(self, reported_id: str | None):
        super().__init__(reported_id)
        self.closed = False
        inner = self.script.dispatch_message_async

        async def dispatch_message_async(message_json=None, **kw):
            if self.closed:
                raise ConnectionError("opv: rpc call on a closed websocket")
            return await inner(message_json)
        self.other.dispatch_message_async = dispatch_message_async


class HttpRig:
    """Real `AggregatorServer(...).fastapi` (all routers, middleware, exception handlers, auth dependencies as shipped)
    on a scratch SQLite file. Requests are made with `httpx.AsyncClient` over `httpx.ASGITransport` on the harness's
    own event loop, so that the harness decides when the engine answers. FastAPI runs the synchronous dependencies
    (`user_name`, `user_roles`, `user_id`, `get_aggregator`) and the synchronous GET routes on anyio worker threads;
    `anyio.to_thread.run_sync` is wrapped (library side, /repo untouched) to count the calls in flight, which is what
    lets `quiesce()` wait for 'nothing can run any more' without ever looking at a clock."""

    def __init__(self, fast_sqlite: bool = True):
        import logging
        logging.disable(logging.CRITICAL)
        from openpectus.aggregator.aggregator_server import AggregatorServer
        from openpectus.aggregator.data import database
        import openpectus.aggregator.data.models as DMdl
        self.tmp = tempfile.mkdtemp(prefix="opv-")
        self.srv = AggregatorServer(db_path=os.path.join(self.tmp, "agg.sqlite3"), webpush_keys_path=self.tmp)
        if fast_sqlite:
            from sqlalchemy import event

            @event.listens_for(database._engine, "connect")
            def _pragmas(dbapi_con, _rec):  # pragma: no cover - trivial
                cur = dbapi_con.cursor()
                cur.execute("PRAGMA synchronous=OFF")
                cur.execute("PRAGMA journal_mode=MEMORY")
                cur.close()
        DMdl.DBModel.metadata.create_all(database._engine)  # type: ignore
        self.database = database
        self.dispatcher = self.srv.dispatcher
        self.agg = self.srv.aggregator
        self.app = self.srv.fastapi
        self.client = None
        self.threads_in_flight = 0
        self.thread_calls = 0
        self._thread_done: asyncio.Event | None = None
        self._orig_run_sync = None

    async def start(self):
        import anyio.to_thread as tt
        import httpx
        self._thread_done = asyncio.Event()
        orig = self._orig_run_sync = tt.run_sync
        rig = self

        async def run_sync(*a, **kw):
            rig.threads_in_flight += 1
            rig.thread_calls += 1
            try:
                return await orig(*a, **kw)
            finally:
                rig.threads_in_flight -= 1
                rig._thread_done.set()
        tt.run_sync = run_sync  # type: ignore
        self.client = httpx.AsyncClient(transport=httpx.ASGITransport(app=self.app, raise_app_exceptions=False),
                                        base_url="http://opv")
        return self

    async def quiesce(self, limit: int = 100000) -> bool:
        """Returns once no task other than the caller can make a step: no worker-thread call in flight and the loop's
        ready queue empty on two consecutive visits (fallback if the loop has no `_ready`: 12 calm visits)."""
        loop = asyncio.get_running_loop()
        ready = getattr(loop, "_ready", None)
        need = 2 if ready is not None else 12
        calm = 0
        for _ in range(limit):
            if self.threads_in_flight > 0:
                await self._thread_done.wait()
                self._thread_done.clear()
                calm = 0
                continue
            await asyncio.sleep(0)
            if self.threads_in_flight == 0 and (ready is None or len(ready) == 0):
                calm += 1
                if calm >= need:
                    return True
            else:
                calm = 0
        return False

    async def register(self, computer: str, uod: str) -> str:
        """Engine registration through the real REST route of the dispatcher."""
        from openpectus.protocol.dispatch_interface import AGGREGATOR_REST_PATH
        from openpectus.protocol.serialization import serialize
        r = await self.client.post(AGGREGATOR_REST_PATH, json=serialize(FrontendRig.register_msg(computer, uod)))
        if r.status_code != 200 or not r.json().get("success"):
            raise RuntimeError(f"rig: engine registration failed: {r.status_code} {r.text[:200]}")
        return r.json()["engine_id"]

    async def connect(self, engine_id: str) -> ClosableWsChannel:
        ch = ClosableWsChannel(engine_id)
        await self.dispatcher._on_delayed_client_connect(ch)  # type: ignore
        if self.dispatcher._engine_id_channel_map.get(engine_id) is not ch:
            raise RuntimeError("rig: the rpc channel was not accepted")
        return ch

    async def drop(self, channel: ClosableWsChannel) -> int:
        """The engine websocket closes: the dispatcher's disconnect handlers run first (nothing else is runnable at a
        quiescent point, so this is atomic for the savers), then every rpc still pending on the channel fails."""
        channel.closed = True
        ex = await ws_closed(self, channel)  # type: ignore
        if ex is not None:
            raise RuntimeError(f"rig: disconnect handler raised {ex!r}")
        n = 0
        for call in channel.script.pending():
            call["future"].set_exception(ConnectionError("opv: websocket closed"))
            n += 1
        return n

    async def aclose(self):
        import anyio.to_thread as tt
        try:
            if self.client is not None:
                await self.client.aclose()
        finally:
            if self._orig_run_sync is not None:
                tt.run_sync = self._orig_run_sync  # type: ignore

    def close(self):
        try:
            if self.database._engine is not None:
                self.database._engine.dispose()
        finally:
            shutil.rmtree(self.tmp, ignore_errors=True)
