"""R1 - engine rig: drives the real Engine tick by tick on a virtual clock, observes at the hardware
write boundary, at UOD command callbacks, at AST-node state transitions and at the tag collection.

Nothing in /repo is edited: hardware is a recording fake, UOD callbacks log, node attributes are
replaced by logging data descriptors (install_node_hooks), time.time is bound to the virtual clock.
"""
from __future__ import annotations

import logging
import time as _time
from typing import Any, Callable

logging.disable(logging.CRITICAL)

import openpectus.lang.model.ast as p
import openpectus.protocol.models as Mdl
from openpectus.engine.engine import Engine, EngineTiming
from openpectus.engine.hardware import HardwareLayerBase, RegisterDirection
from openpectus.lang.exec.clock import Clock
from openpectus.lang.exec.regex import RegexNumber, RegexCategorical
from openpectus.lang.exec.tags import Tag, TagDirection
from openpectus.lang.exec.tags_impl import ReadingTag
from openpectus.lang.exec.timer import NullTimer
from openpectus.lang.exec.uod import UodBuilder

EPOCH = 1_700_000_000.0   # wall-clock-like origin so that tick numbers and times cannot be confused
EPS = 1e-6


# ------------------------------------------------------------------------------------------------
# virtual time
class VClock(Clock):
    """Engine clock and time.time() replacement. `t` is the time of the current tick; while a tick
    is executing time.time() returns t + EPS so that stamps taken with time.time() lie inside it."""

    def __init__(self, t0: float = EPOCH):
        self.t = t0
        self.in_tick = False

    def get_time(self) -> float:
        return self.t

    def now(self) -> float:
        return self.t + (EPS if self.in_tick else 0.0)


_real_time = _time.time
_current_clock: VClock | None = None


def _virtual_time() -> float:
    c = _current_clock
    return c.now() if c is not None else _real_time()


def install_virtual_time(clock: VClock | None):
    global _current_clock
    _current_clock = clock
    _time.time = _virtual_time if clock is not None else _real_time


# ------------------------------------------------------------------------------------------------
# node hooks
TRACE: list[tuple] = []         # (tick, field, node_id, class_name, old, new, pyid)
TICK = [0]
_hooks_installed = False
HOOK_HITS = [0]


def _mk(name: str, default):
    priv = "_opv_" + name

    def g(self):
        return self.__dict__.get(priv, default)

    def s(self, v):
        d = self.__dict__
        old = d.get(priv, default)
        d[priv] = v
        if old != v:
            HOOK_HITS[0] += 1
            TRACE.append((TICK[0], name, self.id, type(self).__name__, old, v, id(self)))
        elif v is True and name == "started":
            # assignment started=True on a node that is already started: a second concrete visit
            HOOK_HITS[0] += 1
            TRACE.append((TICK[0], "restarted", self.id, type(self).__name__, old, v, id(self)))
    return property(g, s)


def install_node_hooks():
    """Replace interpretation-state attributes of AST nodes by logging properties."""
    global _hooks_installed
    if _hooks_installed:
        return
    _hooks_installed = True
    p.Node.started = _mk("started", False)
    p.Node.completed = _mk("completed", False)
    p.Node.failed = _mk("failed", False)
    p.NodeWithChildren.child_index = _mk("child_index", 0)
    p.NodeWithChildren.interrupt_registered = _mk("interrupt_registered", False)
    p.NodeWithChildren.children_complete = _mk("children_complete", False)
    p.BlockNode.lock_acquired = _mk("lock_acquired", False)
    p.BlockNode.block_ended = _mk("block_ended", False)
    p.NodeWithCondition.activated = _mk("activated", False)
    p.MacroNode.run_started_count = _mk("run_started_count", 0)
    p.MacroNode.run_completed_count = _mk("run_completed_count", 0)
    p.AlarmNode.run_count = _mk("run_count", 0)


# ------------------------------------------------------------------------------------------------
# hardware
class RecordingHardware(HardwareLayerBase):
    def __init__(self):
        super().__init__()
        self.mem: dict[str, Any] = {}
        self.inputs: dict[str, Any] = {"FT01": 0.0}
        self.writes: list[tuple[int, str, Any]] = []   # (tick, register, value)
        self.batches = 0

    def read(self, r):
        return self.inputs.get(r.name, self.mem.get(r.name, 0))

    def write(self, v, r):
        self.mem[r.name] = v
        self.writes.append((TICK[0], r.name, v))

    def write_batch(self, values, registers):
        self.batches += 1
        for v, r in zip(values, registers):
            self.write(v, r)

    def connect(self):
        self._is_connected = True

    def disconnect(self):
        self._is_connected = False


# ------------------------------------------------------------------------------------------------
SAFE = {"Out1": 0, "Out2": 0.0}


def make_uod(log: list, with_totalizer: bool = False, long_n: int = 4, fail_at: int = 1):
    """Standard rig UOD. Every callback appends (tick, phase, name, instance_id, iteration)."""

    def init(cmd):
        log.append((TICK[0], "init", cmd.name, cmd.instance_id, 0))

    def fin(cmd):
        log.append((TICK[0], "fin", cmd.name, cmd.instance_id, cmd.get_iteration_count()))

    def short_exec(cmd, **kw):
        log.append((TICK[0], "exec", cmd.name, cmd.instance_id, cmd.get_iteration_count()))
        cmd.set_complete()

    def long_exec(cmd, **kw):
        log.append((TICK[0], "exec", cmd.name, cmd.instance_id, cmd.get_iteration_count()))
        if cmd.get_iteration_count() >= long_n:
            cmd.set_complete()

    def fail_exec(cmd, **kw):
        log.append((TICK[0], "exec", cmd.name, cmd.instance_id, cmd.get_iteration_count()))
        if cmd.get_iteration_count() >= fail_at:
            raise ValueError("scripted failure of command Fail")

    def set1(cmd, value):
        log.append((TICK[0], "exec", cmd.name, cmd.instance_id, cmd.get_iteration_count()))
        cmd.context.tags["Out1"].set_value(int(value), _time.time())
        cmd.set_complete()

    def set2(cmd, number, number_unit=None):
        log.append((TICK[0], "exec", cmd.name, cmd.instance_id, cmd.get_iteration_count()))
        cmd.context.tags["Out2"].set_value(float(number), _time.time())
        cmd.set_complete()

    def setplain(cmd, value):
        log.append((TICK[0], "exec", cmd.name, cmd.instance_id, cmd.get_iteration_count()))
        cmd.context.tags["Plain"].set_value(int(value), _time.time())
        cmd.set_complete()

    def drive1(cmd, **kw):
        # long-running command that (re)writes an output on every iteration
        log.append((TICK[0], "exec", cmd.name, cmd.instance_id, cmd.get_iteration_count()))
        cmd.context.tags["Out1"].set_value(7, _time.time())
        if cmd.get_iteration_count() >= long_n + 4:
            cmd.set_complete()

    def mode_exec(cmd, option):
        log.append((TICK[0], "exec", cmd.name, cmd.instance_id, cmd.get_iteration_count()))
        cmd.set_complete()

    b = (UodBuilder().with_instrument("Rig").with_author("opv", "opv@example.invalid").with_filename("rig_uod")
         .with_hardware(RecordingHardware()).with_location("lab")
         .with_hardware_register("FT01", RegisterDirection.Both)
         .with_hardware_register("Out1", RegisterDirection.Write, safe_value=SAFE["Out1"])
         .with_hardware_register("Out2", RegisterDirection.Write, safe_value=SAFE["Out2"])
         .with_hardware_register("Plain", RegisterDirection.Write)
         .with_tag(ReadingTag("FT01", "L/h"))
         .with_tag(Tag("Out1", value=0, unit=None, direction=TagDirection.Output))
         .with_tag(Tag("Out2", value=0.0, unit="L/h", direction=TagDirection.Output))
         .with_tag(Tag("Plain", value=0, unit=None, direction=TagDirection.Output))
         .with_tag(Tag("X", value=0, unit=None))
         .with_tag(Tag("TT01", value=20.0, unit="degC"))
         .with_command(name="Short", exec_fn=short_exec, init_fn=init, finalize_fn=fin)
         .with_command(name="Long", exec_fn=long_exec, init_fn=init, finalize_fn=fin)
         .with_command(name="Long2", exec_fn=long_exec, init_fn=init, finalize_fn=fin)
         .with_command(name="Other", exec_fn=long_exec, init_fn=init, finalize_fn=fin)
         .with_command(name="Fail", exec_fn=fail_exec, init_fn=init, finalize_fn=fin)
         .with_command(name="Set1", exec_fn=set1, init_fn=init, finalize_fn=fin)
         .with_command(name="SetPlain", exec_fn=setplain, init_fn=init, finalize_fn=fin)
         .with_command(name="Drive1", exec_fn=drive1, init_fn=init, finalize_fn=fin)
         .with_command_regex_arguments(name="Set2", arg_parse_regex=RegexNumber(units=["L/h"]),
                                       exec_fn=set2, init_fn=init, finalize_fn=fin)
         .with_command_regex_arguments(name="Mode", arg_parse_regex=RegexCategorical(exclusive_options=["A", "B"]),
                                       exec_fn=mode_exec, init_fn=init, finalize_fn=fin)
         .with_command_overlap(["Long", "Long2"]))
    if with_totalizer:
        from openpectus.lang.exec.tags_impl import ReadingTag as _RT
        b = b.with_tag(_RT("Tot", "L")).with_hardware_register("Tot", RegisterDirection.Read) \
             .with_accumulated_volume(totalizer_tag_name="Tot")
    uod = b.build()
    uod.hwl.connect()
    return uod


def to_method(text: str) -> Mdl.Method:
    """One method line per source line; ids are 'L<index>' (stable across edits made by the harness)."""
    lines = text.split("\n")
    if lines and lines[-1] == "":
        lines = lines[:-1]
    return Mdl.Method(lines=[Mdl.MethodLine(id=f"L{i}", content=c) for i, c in enumerate(lines)], version=0)


def method_from_lines(lines: list[tuple[str, str]], version: int = 0) -> Mdl.Method:
    return Mdl.Method(lines=[Mdl.MethodLine(id=i, content=c) for i, c in lines], version=version)


class EngineRig:
    """Real Engine + recording fakes. The caller ticks it and applies requests between ticks."""

    def __init__(self, method: str | Mdl.Method | None = None, *, with_totalizer=False, long_n=4, fail_at=1,
                 interval: float = 0.1, hooks: bool = True, uod_factory: Callable | None = None,
                 enable_archiver: bool = False):
        if hooks:
            install_node_hooks()
        TRACE.clear()
        TICK[0] = 0
        self.clock = VClock()
        install_virtual_time(self.clock)
        self.cmdlog: list[tuple] = []
        if uod_factory is None:
            self.uod = make_uod(self.cmdlog, with_totalizer=with_totalizer, long_n=long_n, fail_at=fail_at)
        else:
            self.uod = uod_factory(self.cmdlog)
        self.hw: RecordingHardware = self.uod.hwl  # type: ignore
        self.interval = interval
        self.e = Engine(self.uod, EngineTiming(self.clock, NullTimer(), interval, 1.0), enable_archiver=enable_archiver)
        self.e.run(skip_timer_start=True)
        self.k = 0           # number of ticks done
        self.first = True
        self.tick_exc: list[tuple[int, str]] = []
        self.errors: list[tuple[int, str, str]] = []   # (tick, exception type, text) from set_error_state
        orig = self.e.set_error_state

        def _ses(ex, _orig=orig):
            self.errors.append((TICK[0], type(ex).__name__, str(ex)[:300]))
            return _orig(ex)
        self.e.set_error_state = _ses  # type: ignore
        if method is not None:
            self.e.set_method(to_method(method) if isinstance(method, str) else method)

    # -- driving
    def tick(self, n: int = 1, dt: float | None = None, catch: bool = False):
        dt = self.interval if dt is None else dt
        for _ in range(n):
            inc = 0.0 if self.first else dt
            self.first = False
            self.clock.t += dt
            self.k += 1
            TICK[0] = self.k
            self.clock.in_tick = True
            try:
                self.e.tick(self.clock.t, inc)
            except Exception as ex:  # noqa
                self.tick_exc.append((self.k, f"{type(ex).__name__}: {ex}"[:400]))
                if not catch:
                    raise
            finally:
                self.clock.in_tick = False

    def user(self, name: str) -> bool:
        """User control / uod command. Returns True if accepted (no exception)."""
        try:
            self.e.execute_control_command_from_user(name)
            return True
        except Exception:
            return False

    def start(self):
        assert self.user("Start")
        self.tick()

    # -- observation
    def tag(self, name: str):
        return self.e.tags[name].get_value()

    @property
    def state(self) -> str:
        return str(self.e.tags["System State"].get_value())

    def marks(self) -> list[str]:
        v = self.e.tags["Mark"].get_value()
        return str(v).split("; ") if v else []

    def program(self) -> p.ProgramNode:
        return self.e.interpreter._program

    def runlog(self):
        return self.e.tracking.get_runlog()

    def close(self):
        try:
            self.e.cleanup()
        except Exception:
            pass
        install_virtual_time(None)
