"""Aggregator rig (DESIGN.md R7): the real aggregator on a scratch SQLite *file*.

What is real: `Aggregator`, `FromEngine`, `FromFrontend`, `AggregatorMessageHandlers`, `AggregatorDispatcher`,
the repositories, the SQLAlchemy models, `openpectus.aggregator.data.database` (configured on a file under
`tempfile.mkdtemp(prefix="opv-")`, schema from `DBModel.metadata.create_all` as the repo's tests do).
What is fake: the rpc channels (Mock with `close` / `other.get_engine_id_async`, exactly as
`test/aggregator/test_aggregator.py`), the `FrontendPublisher` (`RecordingPublisher`: records every
`publish_*` call, remembers the disconnect / subscribe callbacks the aggregator registers) and the
`WebPushPublisher` (`RecordingWebPush`; pass `webpush_factory=` to use something else, e.g. the real one).

API (everything a check needs; keep it small):

    # use inside a running event loop (the handlers call asyncio.create_task), e.g. asyncio.run(shard_main())
    rig = AggregatorRig()                     # scratch dir + db file + first aggregator "process"
    try:
        eid = await rig.register(reg_msg("pc", "uod"))        # real register handler; returns engine_id | None
        await rig.connect(eid)                                  # dispatcher._on_delayed_client_connect(mock channel)
        await rig.send(uod_info_msg(eid, ["T1"], 0.5))          # dispatcher.dispatch_message(msg) -> reply message
        await rig.send(run_started_msg(eid, "R1", 1000.0))
        await rig.send(tags_msg(eid, "R1", [("T1", 1001.0, 1.5)]))
        await rig.disconnect(eid)                               # dispatcher.on_client_disconnect(channel)
        await rig.restart(graceful=True)                        # shutdown(), dispose db engine, new Aggregator on same file
        rig.engine_data(eid)                                    # EngineData | None of the *current* aggregator
        rig.plot_logs(run_id=None) / rig.recent_runs(run_id=None) / rig.plot_values(run_id=None)
        rig.recent_engine(eid) / rig.counts()
        rig.wipe()                                              # delete all rows + fresh aggregator (next case)
    finally:
        rig.close()                                             # removes the scratch directory

Attributes: `rig.agg`, `rig.disp`, `rig.handlers`, `rig.pub` (RecordingPublisher, `.events`), `rig.webpush`
(`.sent`), `rig.handler_errors` (replies of type ProtocolErrorMessage = a handler raised), `rig.generation`
(number of aggregator processes booted so far), `rig.db_path`.

Limits: `openpectus.aggregator.data.database` is module-global, so only one rig can be live per process.
The SQLite connection is opened with `synchronous=OFF` (harness-side pragma on the scratch file; a "crash" in this
rig drops the Python objects, the OS process survives, so durability of fsync is not what is examined).
A hard crash (`restart(graceful=False)`) skips `Aggregator.shutdown()` and the disconnect handlers.
"""
from __future__ import annotations

import asyncio
import os
import shutil
import tempfile
from typing import Any, Callable
from unittest.mock import AsyncMock, Mock

import openpectus.aggregator.data.models as DMdl
import openpectus.protocol.engine_messages as EM
import openpectus.protocol.messages as M
import openpectus.protocol.models as PM
from fastapi_websocket_rpc.schemas import RpcResponse
from openpectus import __version__
from openpectus.aggregator.aggregator import Aggregator
from openpectus.aggregator.aggregator_message_handlers import AggregatorMessageHandlers
from openpectus.aggregator.data import database
from openpectus.protocol.aggregator_dispatcher import AggregatorDispatcher
from sqlalchemy import event, func, select


# ------------------------------------------------------------------ fakes
class _EventNotifier:
    def __init__(self, owner):
        self._owner = owner

    def register_subscribe_event(self, cb):
        self._owner.subscribe_callbacks.append(cb)

    def register_unsubscribe_event(self, cb):
        self._owner.unsubscribe_callbacks.append(cb)


class _PubSubEndpoint:
    def __init__(self, owner):
        self._owner = owner
        self.methods = Mock()
        self.methods.event_notifier = _EventNotifier(owner)

    async def publish(self, topics, data=None):
        self._owner.events.append(("pubsub.publish", (topics,)))


class RecordingPublisher:
    """Stands in for FrontendPublisher: every `publish_xxx(*args)` is appended to `.events` as ("xxx", args)."""

    def __init__(self):
        self.events: list[tuple[str, tuple]] = []
        self.disconnect_callbacks: list[Callable] = []
        self.subscribe_callbacks: list[Callable] = []
        self.unsubscribe_callbacks: list[Callable] = []
        self.pubsub_endpoint = _PubSubEndpoint(self)

    def register_on_disconnect(self, cb):
        self.disconnect_callbacks.append(cb)

    def __getattr__(self, name):
        if name.startswith("publish_"):
            async def _rec(*args, **kw):
                self.events.append((name[len("publish_"):], args))
            return _rec
        raise AttributeError(name)


class RecordingWebPush:
    """Stands in for WebPushPublisher: records publish_message / publish_test_message calls in `.sent`."""

    def __init__(self):
        self.sent: list[dict] = []

    async def publish_message(self, notification=None, topic=None, process_unit=None, **kw):
        self.sent.append({"notification": notification, "topic": topic,
                          "engine_id": getattr(process_unit, "engine_id", None)})

    async def publish_test_message(self, user_id):
        self.sent.append({"test": user_id})


# ------------------------------------------------------------------ message builders
def reg_msg(computer: str = "pc", uod: str = "uod", **kw) -> EM.RegisterEngineMsg:
    return EM.RegisterEngineMsg(computer_name=computer, uod_name=uod, uod_author_name="a", uod_author_email="e",
                                uod_filename="f", location="l", engine_version=__version__, **kw)


def uod_info_msg(engine_id: str, tag_names, interval: float, required_roles=()) -> EM.UodInfoMsg:
    return EM.UodInfoMsg(
        engine_id=engine_id,
        readings=[PM.ReadingInfo(discriminator="reading", tag_name=t, valid_value_units=None, entry_data_type=None,
                                 commands=[], command_options=None) for t in tag_names],
        commands=[], uod_definition=PM.UodDefinition(commands=[], system_commands=[], tags=[]),
        plot_configuration=PM.PlotConfiguration.empty(), hardware_str="h", required_roles=set(required_roles),
        data_log_interval_seconds=interval)


def tags_msg(engine_id: str, run_id: str | None, values) -> EM.TagsUpdatedMsg:
    """values: iterable of (name, tick_time, value)."""
    return EM.TagsUpdatedMsg(engine_id=engine_id, run_id=run_id, tags=[
        PM.TagValue(name=n, tick_time=t, value=v, value_unit=None) for n, t, v in values])


def run_started_msg(engine_id: str, run_id: str, started_tick: float) -> EM.RunStartedMsg:
    return EM.RunStartedMsg(engine_id=engine_id, run_id=run_id, started_tick=started_tick)


def run_stopped_msg(engine_id: str, run_id: str) -> EM.RunStoppedMsg:
    return EM.RunStoppedMsg(engine_id=engine_id, run_id=run_id, runlog=PM.RunLog.empty(),
                            method_state=PM.MethodState.empty(), archive=None, archive_filename=None)


def error_log_msg(engine_id: str, entries) -> EM.ErrorLogMsg:
    """entries: iterable of (message, created_time, severity)."""
    return EM.ErrorLogMsg(engine_id=engine_id, log=PM.ErrorLog(entries=[
        PM.ErrorLogEntry(message=m, created_time=t, severity=s) for m, t, s in entries]))


# ------------------------------------------------------------------ rig
class AggregatorRig:
    def __init__(self, webpush_factory: Callable[[], Any] | None = None, secret: str = ""):
        self.dir = tempfile.mkdtemp(prefix="opv-")
        self.db_path = os.path.join(self.dir, "aggregator.sqlite3")
        self._webpush_factory = webpush_factory or RecordingWebPush
        self._secret = secret
        self.generation = 0
        self.handler_errors: list[tuple[str, str]] = []
        self._channels: dict[str, Any] = {}
        self._closed = False
        try:
            self._configure_db()
            DMdl.DBModel.metadata.create_all(database._engine)  # type: ignore[arg-type]
            self._boot()
        except BaseException:
            self.close()
            raise

    # -- process life cycle
    def _configure_db(self):
        database.configure_db(f"sqlite:///{self.db_path}")

        @event.listens_for(database._engine, "connect")
        def _pragmas(dbapi_con, _rec):  # harness-side speed-up of the scratch file only
            cur = dbapi_con.cursor()
            cur.execute("PRAGMA synchronous=OFF")
            cur.close()

    def _boot(self):
        self.generation += 1
        self.pub = RecordingPublisher()
        self.webpush = self._webpush_factory()
        self.disp = AggregatorDispatcher()
        self.agg = Aggregator(self.disp, self.pub, self.webpush, self._secret)  # type: ignore[arg-type]
        self.handlers = AggregatorMessageHandlers(self.agg)
        self._channels = {}

    async def restart(self, graceful: bool = True):
        """Aggregator process restart on the same database file. graceful: what AggregatorServer.lifespan does on
        exit (Aggregator.shutdown(), then AggregatorDispatcher.shutdown()). not graceful: nothing is called."""
        if graceful:
            self.agg.shutdown()
            await self.disp.shutdown()
        await self.drain()
        if database._engine is not None:
            database._engine.dispose()
        self._configure_db()
        self._boot()

    def wipe(self):
        """Empty every table and boot a fresh aggregator: cheap isolation between cases of one shard."""
        with database.create_scope():
            s = database.scoped_session()
            for t in reversed(DMdl.DBModel.metadata.sorted_tables):
                s.execute(t.delete())
            s.commit()
        self.handler_errors = []
        self._boot()

    def close(self):
        if self._closed:
            return
        self._closed = True
        try:
            if database._engine is not None:
                database._engine.dispose()
        finally:
            shutil.rmtree(self.dir, ignore_errors=True)

    async def drain(self, rounds: int = 2):
        """Let the tasks created by the handlers (publisher calls) run."""
        for _ in range(rounds):
            await asyncio.sleep(0)

    # -- engine side entry points
    async def register(self, msg: EM.RegisterEngineMsg) -> str | None:
        """The REST registration: dispatcher._register_handler(msg). Returns engine_id if accepted, else None.
        The full reply is kept in `rig.last_register_reply`."""
        assert self.disp._register_handler is not None
        reply = await self.disp._register_handler(msg)
        self.last_register_reply = reply
        await self.drain(1)
        return reply.engine_id if reply.success else None

    async def connect(self, engine_id: str | None):
        """Websocket connect: channel mock whose get_engine_id_async answers engine_id."""
        response = RpcResponse[str | None](result=engine_id, result_type=None)
        ch = Mock(close=AsyncMock(), other=Mock(get_engine_id_async=AsyncMock(return_value=response)))
        await self.disp._on_delayed_client_connect(ch)
        if engine_id is not None and self.disp._engine_id_channel_map.get(engine_id) is ch:
            self._channels[engine_id] = ch
        return ch

    async def disconnect(self, engine_id: str) -> bool:
        """Websocket close as seen by the dispatcher. Returns False if that engine had no connection."""
        ch = self.disp._engine_id_channel_map.get(engine_id)
        if ch is None:
            return False
        await self.disp.on_client_disconnect(ch)
        self._channels.pop(engine_id, None)
        await self.drain(1)
        return True

    def is_connected(self, engine_id: str) -> bool:
        return self.disp.has_connected_engine_id(engine_id)

    async def send(self, msg: EM.EngineMessage) -> M.MessageBase:
        """An engine message as it arrives over the rpc channel after deserialisation:
        AggregatorDispatcher.dispatch_message -> AggregatorMessageHandlers.handle_Xxx."""
        reply = await self.disp.dispatch_message(msg)
        if isinstance(reply, M.ProtocolErrorMessage):
            self.handler_errors.append((type(msg).__name__, str(reply.protocol_msg)))
        await self.drain(1)
        return reply

    # -- observation
    def engine_data(self, engine_id: str):
        return self.agg.get_registered_engine_data(engine_id)

    def plot_logs(self, run_id: str | None = None) -> list[dict]:
        with database.create_scope():
            s = database.scoped_session()
            q = select(DMdl.PlotLog.id, DMdl.PlotLog.engine_id, DMdl.PlotLog.run_id).order_by(DMdl.PlotLog.id)
            if run_id is not None:
                q = q.where(DMdl.PlotLog.run_id == run_id)
            return [{"id": i, "engine_id": e, "run_id": r} for i, e, r in s.execute(q).all()]

    def recent_runs(self, run_id: str | None = None) -> list[dict]:
        with database.create_scope():
            s = database.scoped_session()
            q = select(DMdl.RecentRun.id, DMdl.RecentRun.engine_id, DMdl.RecentRun.run_id).order_by(DMdl.RecentRun.id)
            if run_id is not None:
                q = q.where(DMdl.RecentRun.run_id == run_id)
            return [{"id": i, "engine_id": e, "run_id": r} for i, e, r in s.execute(q).all()]

    def run_row_counts(self) -> tuple[dict[str, int], dict[str, int]]:
        """({run_id: number of PlotLogs rows}, {run_id: number of RecentRuns rows})"""
        with database.create_scope():
            s = database.scoped_session()
            pl = dict(s.execute(select(DMdl.PlotLog.run_id, func.count()).group_by(DMdl.PlotLog.run_id)).all())
            rr = dict(s.execute(select(DMdl.RecentRun.run_id, func.count()).group_by(DMdl.RecentRun.run_id)).all())
        return pl, rr

    def plot_values(self, run_id: str | None = None, after_id: int = 0) -> list[dict]:
        """PlotLogEntryValues rows (in insertion order) joined with their entry and plot log."""
        with database.create_scope():
            s = database.scoped_session()
            V, E, P = DMdl.PlotLogEntryValue, DMdl.PlotLogEntry, DMdl.PlotLog
            q = (select(V.id, P.id, P.run_id, P.engine_id, E.name, V.tick_time, V.value_int, V.value_float, V.value_str)
                 .join(E, V.plot_log_entry_id == E.id).join(P, E.plot_log_id == P.id)
                 .where(V.id > after_id).order_by(V.id))
            if run_id is not None:
                q = q.where(P.run_id == run_id)
            out = []
            for vid, pid, rid, eid, name, t, vi, vf, vs in s.execute(q).all():
                val = vi if vi is not None else vf if vf is not None else vs
                out.append({"id": vid, "plot_log_id": pid, "run_id": rid, "engine_id": eid, "name": name,
                            "tick_time": t, "value": val})
            return out

    def recent_engine(self, engine_id: str) -> dict | None:
        with database.create_scope():
            s = database.scoped_session()
            r = s.scalar(select(DMdl.RecentEngine).where(DMdl.RecentEngine.engine_id == engine_id))
            if r is None:
                return None
            return {"engine_id": r.engine_id, "run_id": r.run_id, "run_started": r.run_started,
                    "system_state": r.system_state}

    def counts(self) -> dict[str, int]:
        with database.create_scope():
            s = database.scoped_session()
            return {name: s.scalar(select(func.count()).select_from(cls)) for name, cls in (
                ("plot_logs", DMdl.PlotLog), ("plot_log_entries", DMdl.PlotLogEntry),
                ("plot_values", DMdl.PlotLogEntryValue), ("recent_runs", DMdl.RecentRun),
                ("recent_engines", DMdl.RecentEngine))}

    # -- appended for C28 (calendar-time stratum)
    def recent_engine_last_update(self, engine_id: str):
        """`last_update` (aware datetime) of the engine's RecentEngines row, None if there is no row."""
        with database.create_scope():
            s = database.scoped_session()
            return s.scalar(select(DMdl.RecentEngine.last_update).where(DMdl.RecentEngine.engine_id == engine_id))


# ------------------------------------------------------------------ controllable aggregator calendar (C28 only)
class AggregatorClock:
    """Harness-side calendar of the aggregator *process(es)*: every wall-clock read of the aggregator code
    (`datetime.now(..)` in openpectus.aggregator.data.repository and openpectus.aggregator.aggregator, `time.time()` in
    openpectus.aggregator.aggregator / .models / .webpush_publisher) answers real time + `offset` seconds, so a history
    can let calendar time pass (`advance`) without sleeping. The code under test is untouched: the module-level names
    `datetime` / `time` those modules looked up at import are rebound to a datetime subclass (only `now` / `utcnow`
    shifted; instances it hands out are plain `datetime.datetime`) and to a proxy of the `time` module (only `time()`
    shifted). Nothing is installed unless a check calls `install()`; `uninstall()` restores the original names.
    `install()` returns the number of rebound names (0 = the code reads the time some other way: the check must not
    claim that calendar time passed; C28 additionally compares RecentEngines.last_update with this calendar)."""

    _DATETIME_SITES = ("openpectus.aggregator.data.repository", "openpectus.aggregator.aggregator")
    _TIME_SITES = ("openpectus.aggregator.aggregator", "openpectus.aggregator.models",
                   "openpectus.aggregator.webpush_publisher")

    def __init__(self):
        self.offset = 0.0
        self._saved: list[tuple[Any, str, Any]] = []

    def advance(self, seconds: float):
        self.offset += float(seconds)

    def now(self):
        import datetime as _dt
        return _dt.datetime.now(_dt.UTC) + _dt.timedelta(seconds=self.offset)

    def install(self) -> int:
        import datetime as _dt
        import importlib
        import time as _time
        if self._saved:
            return len(self._saved)
        clock = self
        real = _dt.datetime

        class ShiftedDatetime(real):
            @classmethod
            def now(cls, tz=None):
                return real.now(tz) + _dt.timedelta(seconds=clock.offset)

            @classmethod
            def utcnow(cls):
                return real.utcnow() + _dt.timedelta(seconds=clock.offset)

            @classmethod
            def fromtimestamp(cls, *a, **kw):
                return real.fromtimestamp(*a, **kw)

        class ShiftedTime:
            def __getattr__(self, name):
                return getattr(_time, name)

            @staticmethod
            def time():
                return _time.time() + clock.offset

        for sites, attr, original, replacement in ((self._DATETIME_SITES, "datetime", real, ShiftedDatetime),
                                                   (self._TIME_SITES, "time", _time, ShiftedTime())):
            for modname in sites:
                mod = importlib.import_module(modname)
                if getattr(mod, attr, None) is original:
                    self._saved.append((mod, attr, original))
                    setattr(mod, attr, replacement)
        return len(self._saved)

    def uninstall(self):
        for mod, attr, original in self._saved:
            setattr(mod, attr, original)
        self._saved = []
        self.offset = 0.0
