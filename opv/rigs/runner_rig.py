"""R6 - runner rig (C27): real EngineRunner + real Engine/EngineMessageBuilder + ScriptedDispatcher on an asyncio
loop whose time is virtual (sleeping costs nothing, wall-clock decides nothing).

Fairness of the fake (DESIGN.md, C27 'Channel model'): the real transport is ONE ordered websocket, therefore
 * a message is 'on the wire' - its fate (delivered / lost) is decided AND LOGGED - at the moment send_async is
   CALLED; only the reply (or the ProtocolNetworkException) is delayed by a seeded virtual latency;
 * the fake never re-orders anything by itself;
 * a failure is a failure of the *connection*: once a send on a connection has failed, every later send on that
   connection fails too (RpcChannelClosedException / ConnectionClosedError are terminal for a websocket) until the
   runner has disconnected and connected again.

Late replies (case["late"], optional): the fate of a message is STILL decided and logged when send_async is called
(ordered channel), but for a seeded subset of the sends issued after the arming point the reply - the
ProtocolNetworkException of a lost message as well as the SuccessMessage of a delivered one - is released only after a
long virtual delay taken from case["late"]["delays"] (chosen around / beyond a whole reconnect + catch-up cycle: a request
that hangs on a dead connection until a transport time-out). This holds for sends issued in every runner state,
CatchingUp included. The decision uses its own seeded stream, so scenarios without "late" are unchanged. A scenario
ends only after every late reply has been released and the runner has then been steady for 2 s (>= 6 send rounds).

Nothing in /repo is edited. Observation: subclassed dispatcher, instance-level wrappers around
EngineRunner._post_async / _buffer_message (record and delegate), state_changing_callback.
"""
from __future__ import annotations

import asyncio
import random
import selectors

import openpectus.engine.engine_runner as ER
import openpectus.protocol.messages as M
from openpectus.engine.engine_message_builder import EngineMessageBuilder
from openpectus.protocol.engine_dispatcher import EngineDispatcher
from openpectus.protocol.exceptions import ProtocolNetworkException

from opv.rigs import engine_rig as R


class _VSelector(selectors.DefaultSelector):
    def __init__(self):
        super().__init__()
        self.loop = None

    def select(self, timeout=None):
        ev = super().select(0)
        if ev:
            return ev
        if timeout is None:
            raise RuntimeError("virtual-time loop: nothing scheduled and nothing ready (deadlock)")
        if timeout > 0:
            self.loop._vt += timeout
        return []


class VLoop(asyncio.SelectorEventLoop):
    """Event loop whose clock only moves when every task is blocked on a timer."""

    def __init__(self):
        sel = _VSelector()
        super().__init__(sel)
        sel.loop = self
        self._vt = 0.0

    def time(self):
        return self._vt


LAT_SEND = (0.0, 0.001, 0.02, 0.05)
LAT_CONN = (0.0, 0.01, 0.05)


class ScriptedDispatcher(EngineDispatcher):
    """Ordered channel with scripted connection faults.

    send_bits / conn_bits: lists of booleans (True = ok) consumed - only while `armed` - by successive send_async
    calls on a live connection / successive connect_async calls. Exhausted script => ok."""

    def __init__(self, message_builder, rnd: random.Random, log: list, send_bits, conn_bits, late: dict | None = None,
                 late_seed: int = 0):
        super().__init__(message_builder, "virtual.invalid", False,
                         dict(uod_name="u", uod_author_name="a", uod_author_email="e", uod_filename="f", location="l"))
        self.rnd = rnd
        self.log = log
        self.send_bits = list(send_bits)
        self.conn_bits = list(conn_bits)
        self.armed = False
        self.alive = False
        self.conn_id = 0
        self.consumed: list[str] = []
        self.inflight: dict[int, str] = {}     # id(message) -> fate, reply not yet released
        self.runner = None
        self.late = late                       # None | {"p_fail": float, "p_ok": float, "delays": [seconds, ...]}
        self.rnd_late = random.Random(late_seed ^ 0x1A7E) if late else None
        self.late_pending = 0                  # late replies not yet released

    def script_left(self) -> int:
        return len(self.send_bits) + len(self.conn_bits)

    async def connect_async(self):
        ok = True
        if self.armed and self.conn_bits:
            ok = self.conn_bits.pop(0)
            self.consumed.append("C+" if ok else "C-")
        self.log.append(("connect", ok))
        lat = self.rnd.choice(LAT_CONN)
        if lat:
            await asyncio.sleep(lat)
        if not ok:
            raise ProtocolNetworkException("scripted connect failure")
        self._engine_id = "E1"
        self.conn_id += 1
        self.alive = True

    async def disconnect_async(self):
        self.log.append(("disconnect",))
        self.alive = False

    async def send_async(self, message):
        # same preamble as the real send_async
        message.engine_id = self._engine_id or "E1"
        self.assign_sequence_number(message)
        if not self.alive:
            ok = False
        elif self.armed and self.send_bits:
            ok = self.send_bits.pop(0)
            self.consumed.append("S+" if ok else "S-")
            if not ok:
                self.alive = False      # the connection is gone: later sends on it fail as well
        else:
            ok = True
        st = self.runner._state if self.runner is not None else None
        # the fate is decided and logged NOW (ordered channel); only the reply is delayed
        self.log.append(("send", id(message), message.sequence_number, ok, self.conn_id, st))
        self.inflight[id(message)] = "ok" if ok else "fail"
        lat = self.rnd.choice(LAT_SEND)
        late = False
        if self.late is not None and self.armed:
            assert self.rnd_late is not None
            r, d = self.rnd_late.random(), self.rnd_late.choice(self.late["delays"])
            if r < (self.late["p_ok"] if ok else self.late["p_fail"]):
                lat, late = d, True
                self.late_pending += 1
                self.log.append(("late", id(message), ok, d, st))
        try:
            await asyncio.sleep(lat)
        finally:
            self.inflight.pop(id(message), None)
            if late:
                self.late_pending -= 1
        if late:
            self.log.append(("late_reply", id(message), ok, st, self.runner._state if self.runner is not None else None))
        self.log.append(("reply", id(message), ok))
        if not ok:
            raise ProtocolNetworkException("scripted send failure")
        return M.SuccessMessage()


METHOD = "Mark: A\nWait: 1000s\n"


async def _run(case: dict, out: dict):
    """case: {send: [bool], conn: [bool], act: {arm, stop, second}, seed}"""
    loop = asyncio.get_running_loop()
    rnd = random.Random(case["seed"])
    ER.random = random.Random(case["seed"] ^ 0x5EED)      # reconnect back-off of the runner: seeded
    ER.MAX_RECONNECT_WAIT_SECONDS = case.get("max_wait", 10)
    rig = R.EngineRig(METHOD, hooks=False)
    log: list = []
    keep: list = []          # strong references: id() of a message must stay unique for the whole run
    info: dict = {}          # id -> (type name, run_id)
    out.update(log=log, info=info)
    try:
        mb = EngineMessageBuilder(rig.e, "", False)
        disp = ScriptedDispatcher(mb, rnd, log, case["send"], case["conn"], case.get("late"), case["seed"])
        runner = ER.EngineRunner(disp, mb, rig.e.emitter, loop)
        disp.runner = runner
        act = case["act"]
        trig = {"armed_at": None, "stop_due": None, "stop_issued": False, "steady": asyncio.Event()}

        def n_buffer_tasks():
            return sum(1 for t in asyncio.all_tasks(loop)
                       if not t.done() and t.get_name() == "engine.engine_runner.buffer_messages")

        def see(message, via):
            mid = id(message)
            if mid not in info:
                keep.append(message)
                info[mid] = (type(message).__name__, getattr(message, "run_id", None))
                log.append(("prod", mid, type(message).__name__, getattr(message, "run_id", None), runner._state, via,
                            n_buffer_tasks() if via == "buffer" else 0))

        orig_post = runner._post_async
        orig_buf = runner._buffer_message

        async def post(message, **kw):
            see(message, "post")
            log.append(("post", id(message), runner._state))
            return await orig_post(message, **kw)

        def buf(message):
            see(message, "buffer")
            r = orig_buf(message)
            log.append(("buf", id(message), message.sequence_number, runner._state))
            return r

        runner._post_async = post          # type: ignore
        runner._buffer_message = buf       # type: ignore

        async def on_state(prev, new):
            log.append(("state", prev, new, [id(m) for m in runner._message_buffer], dict(disp.inflight), n_buffer_tasks()))
            st = act["stop"]
            if disp.armed and st[0] == "state" and st[1] == new and trig["stop_due"] is None and not trig["stop_issued"]:
                trig["stop_due"] = loop.time() + st[2]

        async def first_steady():
            trig["steady"].set()

        runner.state_changing_callback = on_state
        runner.first_steady_state_callback = first_steady
        if act["arm"] == "boot":
            disp.armed = True

        async def engine_task():
            await trig["steady"].wait()
            await asyncio.sleep(rnd.choice((0.0, 0.03, 0.07)))
            assert rig.user("Start")
            t_start = loop.time()
            second_due = None
            runs = 1
            quiet_since = None
            while True:
                now = loop.time()
                if not disp.armed and act["arm"] == "run" and now - t_start >= 1.0:
                    disp.armed = True
                    log.append(("armed",))
                st = act["stop"]
                if st[0] == "time" and trig["stop_due"] is None and not trig["stop_issued"] and disp.armed:
                    trig["stop_due"] = t_start + 1.0 + st[1]
                if trig["stop_due"] is not None and now >= trig["stop_due"] and not trig["stop_issued"]:
                    trig["stop_issued"] = True
                    if rig.user("Stop"):
                        log.append(("cmd", "Stop"))
                        if act["second"]:
                            second_due = now + 0.4
                if second_due is not None and now >= second_due:
                    second_due = None
                    if rig.user("Start"):
                        runs += 1
                        log.append(("cmd", "Start"))
                rig.tick(catch=True)
                await asyncio.sleep(0.1)
                # termination: script used up (or cannot be used any more), stop handled, every late reply released,
                # and after that the runner steady for 2 s
                steady = runner._state in ("Connected", "Reconnected")
                done_script = disp.armed and (disp.script_left() == 0 or now - t_start > 60.0)
                done_stop = st[0] == "never" or (trig["stop_issued"] and second_due is None) or now - t_start > 60.0
                if steady and done_script and done_stop and disp.late_pending == 0:
                    if quiet_since is None:
                        quiet_since = now
                    elif now - quiet_since >= 2.0:
                        break
                else:
                    quiet_since = None
                if now - t_start > 400.0:
                    break
            out["runs"] = runs

        await asyncio.wait_for(engine_task(), timeout=2000.0)
        # quiescent end: production cut-off, then let every in-flight reply arrive (max latency 0.05 s)
        out["final_state"] = runner._state
        log.append(("cutoff",))
        await asyncio.sleep(0.2)
        out["end_state"] = runner._state
        out["end_buffer"] = [id(m) for m in runner._message_buffer]
        out["end_inflight"] = dict(disp.inflight)
        out["consumed"] = list(disp.consumed)
        out["script_left"] = disp.script_left()
        log.append(("end",))
        tt = runner._timer._task
        if tt.done() and not tt.cancelled() and tt.exception() is not None:
            out["timer_dead"] = repr(tt.exception())      # the runner's tick task died: it can never reconnect again
        try:
            await runner.shutdown()
        except Exception as ex:  # noqa
            out["shutdown_exc"] = repr(ex)
        runner._timer.stop()
        try:
            await runner._timer._task
        except asyncio.CancelledError:
            pass
        except Exception as ex:  # noqa
            out.setdefault("timer_dead", repr(ex))
        out["vtime"] = loop.time()
        out["keep"] = keep
    finally:
        rig.close()


def run_case(case: dict) -> dict:
    """Runs one scripted scenario to completion on a fresh virtual-time loop. Returns the logs."""
    out: dict = {}
    loop = VLoop()
    asyncio.set_event_loop(loop)
    try:
        loop.run_until_complete(_run(case, out))
        # let cancelled helper tasks finish
        pending = [t for t in asyncio.all_tasks(loop) if not t.done()]
        for t in pending:
            t.cancel()
        if pending:
            loop.run_until_complete(asyncio.gather(*pending, return_exceptions=True))
    finally:
        asyncio.set_event_loop(None)
        loop.close()
    return out
