"""Interrupt-level instrumentation shared by the C04 and C05 monitors (harness side only, nothing in /repo and
nothing in engine_rig.py is edited). install() adds, on top of engine_rig.install_node_hooks():

* logging data descriptors for Node._cancelled / Node._forced  (accepted cancel / force, and their reset)
* wrappers around PInterpreter._evaluate_condition ("eval"), _register_interrupt ("reg_call"),
  _unregister_interrupt ("unreg_call")
* a wrapper around PInterpreter.visit that brackets every step of an interrupt handler generator (the generator
  created inside _register_interrupt) with "h_enter" / "h_exit" events.

All events go to engine_rig.TRACE with the usual tuple shape (tick, field, node_id, class, old, new, pyid), so the
order of the list is the order of execution. Wrappers record and delegate; they never change results.
"""
from __future__ import annotations

QUIET = ("eval", "h_enter", "h_exit")     # events that occur every tick while a Watch/Alarm is pending

_installed = False
HITS = {"eval": 0, "reg": 0, "unreg": 0}


def _flag(name):
    priv = "_opv_" + name

    def g(self):
        return self.__dict__.get(priv, False)

    def s(self, v):
        from opv.rigs import engine_rig as R
        d = self.__dict__
        old = d.get(priv, False)
        d[priv] = v
        if old != v:
            R.TRACE.append((R.TICK[0], name, self.id, type(self).__name__, old, v, id(self)))
    return property(g, s)


def install():
    global _installed
    if _installed:
        return
    _installed = True
    from opv.rigs import engine_rig as R
    import openpectus.lang.model.ast as p
    import openpectus.lang.exec.pinterpreter as PI
    R.install_node_hooks()
    p.Node._cancelled = _flag("_cancelled")
    p.Node._forced = _flag("_forced")

    orig_eval = PI.PInterpreter._evaluate_condition

    def _evaluate_condition(self, node):
        HITS["eval"] += 1
        try:
            r = orig_eval(self, node)
        except BaseException as ex:
            R.TRACE.append((R.TICK[0], "eval", node.id, type(node).__name__, None, f"EXC {type(ex).__name__}", id(node)))
            raise
        R.TRACE.append((R.TICK[0], "eval", node.id, type(node).__name__, None, r, id(node)))
        return r
    PI.PInterpreter._evaluate_condition = _evaluate_condition

    orig_unreg = PI.PInterpreter._unregister_interrupt

    def _unregister_interrupt(self, node, *a, **kw):
        HITS["unreg"] += 1
        R.TRACE.append((R.TICK[0], "unreg_call", node.id, type(node).__name__, None, None, id(node)))
        return orig_unreg(self, node, *a, **kw)
    PI.PInterpreter._unregister_interrupt = _unregister_interrupt

    orig_reg = PI.PInterpreter._register_interrupt
    in_reg = [False]

    def _register_interrupt(self, node, *a, **kw):
        HITS["reg"] += 1
        R.TRACE.append((R.TICK[0], "reg_call", node.id, type(node).__name__, None, None, id(node)))
        in_reg[0] = True
        try:
            return orig_reg(self, node, *a, **kw)
        finally:
            in_reg[0] = False
    PI.PInterpreter._register_interrupt = _register_interrupt

    # the generator that _register_interrupt creates for a node is that node's interrupt handler; bracket every
    # step of it with h_enter / h_exit so that the monitor knows in whose handler an event happened
    orig_visit = PI.PInterpreter.visit

    def _handler(g, node):
        ident = (node.id, type(node).__name__, None, None, id(node))
        while True:
            R.TRACE.append((R.TICK[0], "h_enter") + ident)
            try:
                r = next(g)
            except StopIteration:
                R.TRACE.append((R.TICK[0], "h_exit") + ident)
                return
            except BaseException:
                R.TRACE.append((R.TICK[0], "h_exit") + ident)
                raise
            R.TRACE.append((R.TICK[0], "h_exit") + ident)
            yield r

    def visit(self, node):
        g = orig_visit(self, node)
        if in_reg[0]:
            in_reg[0] = False
            HITS["handler"] = HITS.get("handler", 0) + 1
            return _handler(g, node)
        return g
    PI.PInterpreter.visit = visit
