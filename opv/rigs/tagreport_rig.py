"""Tag-report rig shared by C16 and C36 (new file; engine_rig.py is used unchanged).

One generated run = real Engine on the virtual clock (EngineRig, totalizer UOD in three accumulator configurations, scripted
totalizer with plateaus, archiver on/off) + the real
EngineMessageBuilder taking incremental / snapshot tag reports after random 1-7 ticks.

Observation attached from the harness only:
* `Tag.__setattr__` is replaced by a recording hook for the four attributes a report is built from (`value`,
  `simulated_value`, `simulated`, `tick_time`). It stores the attribute exactly like object.__setattr__ and notes in
  which rig tick the *reported* value (`simulated_value if simulated else value`, what `Tag.as_readonly()` reports)
  changed, in which tick `tick_time` was last assigned and the name of the assigning function (classifier aid only).
* `Tag.notify_listeners` is wrapped (record + delegate) to know whether a change was announced.
* a snapshot of every tag's `as_readonly()` at every tick end is the fallback/cross-check for the hook (`hook_miss`).

Tick numbering: rig tick k (1-based, `rig.k`) runs at clock time T[k] = EPOCH + k*interval; T[0] = EPOCH is the time
of engine construction. The engine's own tick number is k - 1. "Tick 0" means before the first engine tick.
"""
from __future__ import annotations

import decimal
import os
import random
import sys

from opv.gen_pcode import Gen, trajectory
from opv.rigs import engine_rig as R

from openpectus.lang.exec.tags import Tag, ChangeSubject

WATCH = frozenset(("value", "simulated_value", "simulated", "tick_time"))
USER_CMDS = ("Pause", "Unpause", "Hold", "Unhold", "Stop", "Start", "Restart")


class TagInfo:
    __slots__ = ("chg_tick", "chg_site", "chg_attr", "chg_unmask", "raw_chg_tick", "stamp_tick", "stamp_site",
                 "stamp_caller", "stamp_ticks", "n_chg", "n_chg_since_report", "n_notified_since_report", "chg_ticks_since_report",
                 "chg_ticks")

    def __init__(self):
        self.chg_tick = None        # last rig tick in which the reported value changed (0 = before first tick)
        self.chg_site = None        # co_name of the function that made that assignment
        self.chg_attr = None        # attribute whose assignment changed the reported value
        self.chg_unmask = False     # that change was the end of a simulation (simulated True -> False / value unmasked)
        self.raw_chg_tick = None    # last rig tick in which the real (unsimulated) `value` attribute changed
        self.stamp_tick = None      # last rig tick in which tick_time was assigned
        self.stamp_site = None      # co_name of the function that assigned tick_time (e.g. set_value, simulate_value)
        self.stamp_caller = None    # co_name of that function's caller (e.g. visit_EndBlockNode)
        self.stamp_ticks = set()    # all rig ticks with a tick_time assignment
        self.n_chg = 0
        self.n_chg_since_report = 0
        self.n_notified_since_report = 0
        self.chg_ticks_since_report = set()
        self.chg_ticks = set()      # all rig ticks in which the reported value changed (counter aid: "totalizer at rest")


class _Log:
    def __init__(self):
        self.on = False
        self.info: dict[int, TagInfo] = {}
        self.hits = 0

    def reset(self):
        self.info = {}
        self.hits = 0

    def get(self, tag) -> TagInfo:
        i = self.info.get(id(tag))
        if i is None:
            i = self.info[id(tag)] = TagInfo()
        return i


LOG = _Log()
_installed = False


def _neq(a, b) -> bool:
    try:
        return bool(a != b)
    except Exception:
        return True


def _tag_setattr(self, name, val):
    if name in WATCH and LOG.on:
        d = self.__dict__
        if "simulated" in d:        # fully constructed (Tag.__init__ assigns `simulated` last)
            before = d.get("simulated_value") if d.get("simulated") else d.get("value")
            raw_before = d.get("value")
            was_sim = d.get("simulated")
            object.__setattr__(self, name, val)
            LOG.hits += 1
            info = LOG.get(self)
            tick = R.TICK[0]
            site = sys._getframe(1).f_code.co_name
            if name == "tick_time":
                info.stamp_tick = tick
                info.stamp_site = site
                try:
                    info.stamp_caller = sys._getframe(2).f_code.co_name
                except ValueError:
                    info.stamp_caller = None
                info.stamp_ticks.add(tick)
                return
            after = d.get("simulated_value") if d.get("simulated") else d.get("value")
            if name == "value" and _neq(raw_before, val):
                info.raw_chg_tick = tick
            if _neq(before, after):
                info.chg_tick = tick
                info.chg_site = site
                info.chg_attr = name
                info.chg_unmask = bool(was_sim and not d.get("simulated"))
                info.n_chg += 1
                info.n_chg_since_report += 1
                info.chg_ticks_since_report.add(tick)
                info.chg_ticks.add(tick)
            return
    object.__setattr__(self, name, val)


def _tag_notify(self, elm):
    if LOG.on:
        LOG.get(self).n_notified_since_report += 1
    return ChangeSubject.notify_listeners(self, elm)


def install_tag_hooks():
    global _installed
    if _installed:
        return
    _installed = True
    Tag.__setattr__ = _tag_setattr          # type: ignore
    Tag.notify_listeners = _tag_notify      # type: ignore


# ------------------------------------------------------------------------------------------------
# case generation (identical for C16 and C36: "same runs")
class TagGen(Gen):
    """Shared generator plus one extra statement kind: a complete Simulate ... Simulate off pair on one tag (the
    shared grammar emits the two halves independently, so a simulation that is really switched off again is rare)."""
    SIM_PAIRS = (("X", "= 4"), ("X", "= 2"), ("FT01", "= 3 L/h"), ("FT01", "= 5 L/h"), ("FT01", "= 2"),
                 ("TT01", "= 30 degC"), ("Out2", "= 1.5 L/h"), ("Tot", "= 7 L"), ("Block", "= zz"))

    def stmt(self, ind, depth, in_block, no_blank=False):
        r = self.r
        if "sim" in self.allow and r.random() < 0.07:
            tag, val = r.choice(self.SIM_PAIRS)
            self.kinds.append("simpair")
            self.emit(ind, f"Simulate: {tag} {val}")
            for _ in range(r.randint(0, 2)):
                self.emit(ind, r.choice([f"Wait: {r.choice(self.wait_values)}s", f"Mark: {self.lab()}", "Short"]))
            self.emit(ind, f"Simulate off: {tag}")
            return
        super().stmt(ind, depth, in_block, no_blank)


TOT_RATES = (0.01, 0.25, 0.5, 1.5)
UOD_KINDS = ("vol", "vol+cv", "cv")


def tot_trajectory(rnd: random.Random, n: int) -> tuple[str, list[float]]:
    """Scripted totalizer readings (never decreasing). Besides the always-moving / never-moving meter:
    * "plateaus": flow phases of 1-12 ticks alternate with plateaus of 5-30 ticks in which the meter stands still;
    * "burst":    the meter moves for 1-8 ticks early in the run and then stands still (optionally resumes much later),
                  so every later block start / block end lies inside a plateau with volume already accumulated.
    Values on a plateau are the *same float* (no re-computation), so an accumulator really sees no change."""
    kind = rnd.choice(["linear", "linear", "plateaus", "plateaus", "plateaus", "burst", "burst"])
    if kind == "linear":
        rate = rnd.choice([0.0, 0.01, 0.5, 0.25])
        return kind, [rate * k for k in range(n)]
    out: list[float] = []
    v = rnd.choice([0.0, 0.0, 12.5])
    if kind == "burst":
        a = rnd.randint(0, 6)
        w = rnd.randint(1, 8)
        rate = rnd.choice(TOT_RATES)
        resume = a + w + rnd.randint(20, 60) if rnd.random() < 0.4 else None
        for k in range(n):
            if a <= k < a + w or (resume is not None and k >= resume):
                v = v + rate
            out.append(v)
        return kind, out
    flowing = rnd.random() < 0.6
    while len(out) < n:
        if flowing:
            rate = rnd.choice(TOT_RATES)
            for _ in range(rnd.randint(1, 12)):
                v = v + rate
                out.append(v)
        else:
            out.extend([v] * rnd.randint(5, 30))
        flowing = not flowing
    return kind, out[:n]


def gen_case(rnd: random.Random, max_depth: int = 3, max_ticks: int = 120) -> dict:
    g = TagGen(rnd, allow=("mark", "uod", "wait", "block", "block", "watch", "alarm", "macro", "thr", "blank", "base",
                        "sim", "counter", "info", "pausehold"),
            max_depth=max_depth, thr_values=("0.2", "0.5", "1", "0", "0.3"))
    text = g.program(rnd.randint(3, 9))
    traj = trajectory(rnd, max_ticks + 2)
    reports = []
    k = 0
    while k < max_ticks:
        gap = rnd.randint(1, 7)
        k += gap
        reports.append([gap, "snap" if rnd.random() < 0.12 else "inc"])
    user = []
    if rnd.random() < 0.35:
        for _ in range(rnd.randint(1, 3)):
            user.append([rnd.randint(2, 60), rnd.choice(USER_CMDS)])
        user.sort()
    tot_kind, tot = tot_trajectory(rnd, max_ticks + 2)
    return {"text": text, "traj": traj, "tot": tot, "tot_kind": tot_kind,
            "uod": rnd.choice(["vol", "vol", "vol+cv", "vol+cv", "cv"]), "cv": rnd.choice([0.5, 2.0, 4.0]),
            "archiver": rnd.random() < 0.5, "reports": reports, "user": user, "max_ticks": max_ticks}


def uod_factory(kind: str, cv: float):
    """The standard rig UOD (engine_rig.make_uod, used unchanged) in three accumulator configurations:
    "vol"    = totalizer Tot + with_accumulated_volume (Accumulated Volume / Block Volume)       [make_uod as is]
    "vol+cv" = the same plus a column volume tag CV and with_accumulated_cv (Accumulated CV / Block CV)
    "cv"     = Tot + CV + with_accumulated_cv only.
    The extra builder calls are appended just before build() through a UodBuilder subclass that engine_rig.make_uod
    instantiates for the duration of this call (engine_rig.py itself is not edited)."""
    def factory(log):
        if kind == "vol":
            return R.make_uod(log, with_totalizer=True)
        from openpectus.engine.hardware import RegisterDirection
        from openpectus.lang.exec.tags_impl import ReadingTag

        class _Builder(R.UodBuilder):
            def build(self):
                if kind == "cv":
                    self.with_tag(ReadingTag("Tot", "L")).with_hardware_register("Tot", RegisterDirection.Read)
                self.with_tag(Tag("CV", value=float(cv), unit="L"))
                self.with_accumulated_cv(cv_tag_name="CV", totalizer_tag_name="Tot")
                return super().build()
        saved = R.UodBuilder
        R.UodBuilder = _Builder
        try:
            return R.make_uod(log, with_totalizer=(kind != "cv"))
        finally:
            R.UodBuilder = saved
    return factory


# ------------------------------------------------------------------------------------------------
def _norm(v):
    return float(v) if isinstance(v, decimal.Decimal) else v


class Report:
    __slots__ = ("index", "after_tick", "kind", "entries", "tags", "T_now")

    def __init__(self, index, after_tick, kind, entries, tags, T_now):
        self.index = index
        self.after_tick = after_tick      # rig tick after which the report was taken (0 = before the first tick)
        self.kind = kind                  # "inc" | "snap"
        self.entries = entries            # [(name, tick_time, value, simulated)] as delivered by the message builder
        self.tags = tags                  # name -> dict (shadow + hook info at report time) for EVERY engine tag
        self.T_now = T_now


class Run:
    def __init__(self):
        self.T: list[float] = [R.EPOCH]
        self.engine_tick_number: dict[int, int] = {}
        self.reports: list[Report] = []
        self.interval = 0.1
        self.ticks = 0
        self.errors = 0
        self.tick_exceptions: list = []
        self.hook_miss = 0
        self.hook_hits = 0
        self.site_counts: dict[str, int] = {}
        self.text = ""

    def window(self, k: int) -> tuple[float, float]:
        """[T_k, T_{k+1}) - the clock interval that belongs to rig tick k"""
        lo = self.T[k]
        hi = self.T[k + 1] if k + 1 < len(self.T) else self.T[k] + self.interval
        return lo, hi

    def in_window(self, t: float, k: int) -> bool:
        lo, hi = self.window(k)
        return lo <= t < hi


def run_case(case: dict, scratch: str, case_no: int = 0) -> Run:
    """Executes one generated run against the real engine and returns everything the two oracles need."""
    import openpectus.engine.archiver as A
    from openpectus.engine.engine_message_builder import EngineMessageBuilder

    install_tag_hooks()
    run = Run()
    run.text = case["text"]
    if case.get("archiver"):
        d = os.path.join(scratch, f"arch{case_no}")
        os.makedirs(d, exist_ok=True)
        A.__file__ = os.path.join(d, "archiver.py")        # data directory = <d>/data, never /repo
    LOG.reset()
    LOG.on = True
    rig = None
    try:
        rig = R.EngineRig(case["text"], enable_archiver=bool(case.get("archiver")),
                          uod_factory=uod_factory(case.get("uod", "vol"), case.get("cv", 2.0)))
        if case.get("archiver"):
            ar = rig.e._system_tags["Archive filename"]
            assert ar.data_path.startswith(scratch), ar.data_path
        run.interval = rig.interval
        e = rig.e
        mb = EngineMessageBuilder(e, "", False)
        all_tags = list(e._iter_all_tags())
        prev_shadow: dict[int, object] = {}

        def shadow_now():
            out = {}
            for t in all_tags:
                out[id(t)] = t.as_readonly().value
            return out

        def take_report(kind: str):
            if kind == "snap":
                msg = mb.create_tag_updates_snapshot_msg()
            else:
                msg = mb.create_tag_updates_msg(None)
            entries = []
            if msg is not None:
                for tv in msg.tags:
                    entries.append((str(tv.name), tv.tick_time, tv.value, tv.simulated))
            tags = {}
            for t in all_tags:
                ro = t.as_readonly()
                info = LOG.get(t)
                tags[str(t.name)] = {
                    "value": _norm(ro.value), "tick_time": t.tick_time, "simulated": bool(t.simulated),
                    "cls": type(t).__name__,
                    "chg_tick": info.chg_tick, "chg_site": info.chg_site, "chg_attr": info.chg_attr,
                    "chg_unmask": info.chg_unmask, "raw_chg_tick": info.raw_chg_tick,
                    "stamp_tick": info.stamp_tick, "stamp_site": info.stamp_site, "stamp_caller": info.stamp_caller,
                    "stamped_in_chg_tick": info.chg_tick in info.stamp_ticks,
                    "n_chg_since_report": info.n_chg_since_report,
                    "chg_ticks_since_report": sorted(info.chg_ticks_since_report),
                    "n_notified_since_report": info.n_notified_since_report,
                }
                tot = getattr(t, "totalizer", None)
                if tot is not None and hasattr(t, "accumulator_stack") and info.chg_tick is not None:
                    # counter aid: did the accumulator's totalizer stand still in the tick of the last change?
                    tags[str(t.name)]["tot_rest_in_chg_tick"] = info.chg_tick not in LOG.get(tot).chg_ticks
                info.n_chg_since_report = 0
                info.n_notified_since_report = 0
                info.chg_ticks_since_report = set()
            run.reports.append(Report(len(run.reports), rig.k, kind, entries, tags, rig.clock.t))

        prev_shadow = shadow_now()
        take_report("snap")                   # what the runner sends first when it reaches steady state
        rig.user("Start")
        rep_iter = iter(case["reports"])
        nxt = next(rep_iter, None)
        next_at = nxt[0] if nxt else None
        user = list(case.get("user") or [])
        last_ev = 0
        stop_at = None
        k = 0
        while k < case["max_ticks"]:
            while user and user[0][0] <= k + 1:
                rig.user(user.pop(0)[1])
            rig.hw.inputs["FT01"] = case["traj"][min(k, len(case["traj"]) - 1)]
            if "tot" in case:
                rig.hw.inputs["Tot"] = float(case["tot"][min(k, len(case["tot"]) - 1)])
            else:                                   # cases recorded before the plateau trajectories existed
                rig.hw.inputs["Tot"] = float(case["tot_rate"]) * k
            n0 = len(R.TRACE)
            rig.tick(catch=True)
            k += 1
            run.T.append(rig.clock.t)
            run.engine_tick_number[k] = e._tick_number
            # tick-end snapshot: cross-check of the setattr hook (a change the hook did not see)
            sh = shadow_now()
            for t in all_tags:
                if _neq(sh[id(t)], prev_shadow[id(t)]):
                    info = LOG.get(t)
                    if info.chg_tick != k:
                        run.hook_miss += 1
                        info.chg_tick = k
                        info.chg_site = "?"
                        info.chg_attr = "?"
                        info.chg_unmask = False
                        info.n_chg_since_report += 1
                        info.chg_ticks_since_report.add(k)
                        info.chg_ticks.add(k)
            prev_shadow = sh
            if rig.tick_exc:
                run.tick_exceptions = list(rig.tick_exc)
                break
            if len(R.TRACE) != n0 or (rig.cmdlog and rig.cmdlog[-1][0] == rig.k):
                last_ev = k
            if next_at is not None and k >= next_at:
                take_report(nxt[1])
                nxt = next(rep_iter, None)
                next_at = k + nxt[0] if nxt else None
            if stop_at is None and (k - last_ev >= 20 and k >= 30 and not user or rig.errors):
                stop_at = k + 9                 # a few more reports after quiescence / error pause
            if stop_at is not None and k >= stop_at:
                break
        take_report("inc")
        take_report("snap")
        run.ticks = k
        run.errors = len(rig.errors)
        run.hook_hits = LOG.hits
    finally:
        LOG.on = False
        if rig is not None:
            rig.close()
        else:
            R.install_virtual_time(None)
    return run
