"""python -m opv.cli check C07 --tier quick|thorough   (VERIF_SEED, VERIF_TIER honoured)
   python -m opv.cli shard C07 '<spec json>' out.json   (internal)
   python -m opv.cli replay <replay file>"""
import os
import sys

REPO = os.environ.get("OPV_REPO", "/repo")
if REPO not in sys.path:
    sys.path.insert(0, REPO)
os.environ.setdefault("OPEN_PECTUS_VERIF", "1")

import importlib
import json
import logging


def load(prop_id: str):
    return importlib.import_module(f"opv.props.{prop_id.lower()}")


def main(argv):
    if len(argv) < 2:
        print(__doc__)
        return 2
    cmd = argv[0]
    if cmd == "check":
        prop_id = argv[1]
        tier = os.environ.get("VERIF_TIER") or "quick"
        if "--tier" in argv:
            tier = argv[argv.index("--tier") + 1]
            if os.environ.get("VERIF_TIER"):
                tier = os.environ["VERIF_TIER"]
        seed = int(os.environ.get("VERIF_SEED", "0") or 0)
        if "--seed" in argv:
            seed = int(argv[argv.index("--seed") + 1])
        from opv import core
        return core.run_check(load(prop_id), tier, seed)
    if cmd == "shard":
        logging.disable(logging.CRITICAL)
        prop_id, spec, out = argv[1], json.loads(argv[2]), argv[3]
        res = load(prop_id).run_shard(spec)
        with open(out, "w") as f:
            json.dump(res.to_dict(), f, default=str)
        return 0
    if cmd == "replay":
        logging.disable(logging.CRITICAL)
        with open(argv[1]) as f:
            rp = json.load(f)
        mod = load(rp["property"])
        if isinstance(rp.get("case"), dict) and "shard_spec" in rp["case"]:
            # witness "the code under test raised during the workload": re-run that shard, the exception propagates
            try:
                mod.run_shard(rp["case"]["shard_spec"])
            except Exception as ex:
                import traceback
                traceback.print_exc()
                print(f"reproduced: {type(ex).__name__}: {ex}")
                return 1
            print("replay: the shard ran to its end without an exception")
            return 0
        if not hasattr(mod, "replay"):
            print("no replay function; witness:\n" + json.dumps(rp, indent=1)[:4000])
            return 2
        res = mod.replay(rp["case"])
        for v in res.violations:
            print(f"reproduced mech={v['mech']} {v['msg']}")
        print(f"replay: {sum(res.viol_counts.values())} violation(s)")
        return 1 if res.violations else 0
    print(__doc__)
    return 2


if __name__ == "__main__":
    sys.exit(main(sys.argv[1:]))
