#!/usr/bin/env python3
"""Confirms a seeded change produced by a sub-agent in its scratch worktree, then keeps it under /verif/seeded/<name>/.

    tools_seed_verify.py C24 /tmp/seed-C24 [--name C24-a] [--no-suite] [--needs "..."]

Steps (all in the worktree, never in /repo): patch.diff must apply to a clean checkout; the demo must exit 0 without the
change and non-zero with it; the repository's own test-suite must still pass with the change (every test in
BASELINE.stable_pass must pass; PATH/PYTHONPATH are set so that the console-script subprocesses of the integration tests
import the worktree's code too). On success copies patch.diff, the demo and meta.json to /verif/seeded/<name>/."""
import json
import os
import shutil
import subprocess
import sys
import xml.etree.ElementTree as ET


def sh(cmd, cwd, env=None, timeout=3600):
    return subprocess.run(cmd, shell=True, cwd=cwd, env=env, capture_output=True, text=True, timeout=timeout)


def main():
    pid, wt = sys.argv[1], sys.argv[2]
    name = sys.argv[sys.argv.index("--name") + 1] if "--name" in sys.argv else pid + "-a"
    needs = sys.argv[sys.argv.index("--needs") + 1] if "--needs" in sys.argv else ""
    demo = f"demo_{pid.lower()}.py"
    env = dict(os.environ, PATH="/venv/bin:" + os.environ["PATH"], PYTHONPATH=wt, PYTHONDONTWRITEBYTECODE="1")
    ran = []
    # 1. clean tree + patch applies
    assert os.path.exists(os.path.join(wt, "patch.diff")), "no patch.diff"
    sh("git checkout -- openpectus", wt)
    r = sh("git apply --check patch.diff", wt)
    assert r.returncode == 0, "patch does not apply to the pinned tree: " + r.stderr
    # 2. demo without / with
    r0 = sh(f"/venv/bin/python {demo}", wt, env, 900)
    ran.append(f"demo on original: exit {r0.returncode}")
    sh("git apply patch.diff", wt)
    r1 = sh(f"/venv/bin/python {demo}", wt, env, 900)
    ran.append(f"demo with change: exit {r1.returncode}")
    print(ran)
    if r0.returncode != 0 or r1.returncode == 0:
        print("REJECT: demo does not discriminate", r0.stdout[-500:], r0.stderr[-500:], r1.stdout[-500:], r1.stderr[-300:])
        return 1
    # 3. suite with the change
    if "--no-suite" not in sys.argv:
        junit = f"/tmp/seed-junit-{name}.xml"
        r = sh("/venv/bin/python -m pytest -q -p no:cacheprovider --timeout=900 --continue-on-collection-errors "
               f"--junitxml={junit}", wt, env, 3600)
        base = set(json.load(open("/root/.vp/BASELINE.json"))["stable_pass"])
        passed = set()
        for tc in ET.parse(junit).getroot().iter("testcase"):
            ok = not any(ch.tag in ("failure", "error", "skipped") for ch in tc)
            if ok:
                passed.add(f"{tc.get('classname')}::{tc.get('name')}")
        missing = sorted(base - passed)
        os.unlink(junit)
        ran.append(f"full suite with change: {len(passed)} passed, baseline tests not passing: {missing}")
        print(ran[-1])
        if missing:
            # retry the missing ones alone (timing-sensitive tests flake under load); if one still fails, run it on
            # the original tree too: a test that fails there as well says nothing about the change
            def ids_of(ms):
                out = []
                for m in ms:
                    cn, tn = m.split("::")
                    mod, cls = cn.rsplit(".", 1)
                    out.append(f"'{mod.replace('.', '/')}.py::{cls}::{tn}'")
                return " ".join(out)
            still = []
            for m in missing:
                r = sh(f"/venv/bin/python -m pytest -q -p no:cacheprovider --timeout=900 {ids_of([m])}", wt, env, 3600)
                if r.returncode != 0:
                    still.append(m)
            ran.append(f"re-run alone with change: still failing {still}")
            print(ran[-1])
            if still:
                sh("git checkout -- openpectus", wt)
                orig_fail = []
                for m in still:
                    r = sh(f"/venv/bin/python -m pytest -q -p no:cacheprovider --timeout=900 {ids_of([m])}", wt, env, 3600)
                    if r.returncode != 0:
                        orig_fail.append(m)
                sh("git apply patch.diff", wt)
                ran.append(f"of those, failing on the original tree as well (environmental): {orig_fail}")
                print(ran[-1])
                if set(still) - set(orig_fail):
                    print("REJECT: existing tests fail with the change")
                    return 1
    # 4. keep
    dst = os.path.join("/verif/seeded", name)
    os.makedirs(dst, exist_ok=True)
    shutil.copy(os.path.join(wt, "patch.diff"), os.path.join(dst, "patch.diff"))
    shutil.copy(os.path.join(wt, demo), os.path.join(dst, demo))
    json.dump({"property": pid, "needs_to_manifest": needs, "ran": ran,
               "how_to_run_demo": f"in a worktree of the repo with patch.diff applied: /venv/bin/python {demo} (exit 0 = property "
                                  "held, non-zero = broken)", "caught_by": "see DESIGN.md section 10"},
              open(os.path.join(dst, "meta.json"), "w"), indent=1)
    print("KEPT", dst)
    return 0


if __name__ == "__main__":
    sys.exit(main())
