#!/usr/bin/env python3
"""Prints the prompt for a seeded-change sub-agent: property text + its own scratch worktree. Nothing from /verif."""
import json, sys
pid, wt = sys.argv[1], sys.argv[2]
extra = sys.argv[3] if len(sys.argv) > 3 else ""
pr = next(json.loads(l) for l in open('/verif/properties.jsonl') if json.loads(l)["id"] == pid)
print(f"""You are a software engineer testing how robust a project's quality gates are. The project is Open-Pectus (a Python process-control engine that interprets the P-code DSL tick by tick, drives hardware registers and reports to an aggregator over websockets). You have your own scratch git worktree of it at {wt} (work ONLY there; never touch /repo or /verif; do not read anything under /verif). Python is /venv/bin/python; run things from inside the worktree (cd {wt}) and first confirm that `cd {wt} && /venv/bin/python -c "import openpectus; print(openpectus.__file__)"` prints a path inside {wt}.

Here is a semantic property the project is supposed to satisfy:

  Title: {pr['title']}
  Statement: {pr['statement']}
  Holds for: {pr['quantifier']['text']}
  Why the existing tests cannot settle it: {pr['why_tests_cant']}
  Code it is anchored in: {', '.join(pr['anchors']['files'])}

Task: make ONE small, realistic change to the source under {wt}/openpectus (not to tests) — the kind of slip a developer could plausibly make in a refactoring or "optimisation" — that BREAKS this property, while the code still imports and the existing test-suite still passes. The break must need something specific to manifest: a particular interleaving, a fault or crash at a particular point, a multi-step sequence of operations, an unusual input, or two cooperating sites that each look fine alone. It must NOT be something ordinary use or the existing tests would expose at once. {extra}

Then write a demonstration: a small standalone program or test file {wt}/demo_{pid.lower()}.py (run as `cd {wt} && /venv/bin/python demo_{pid.lower()}.py`) that exercises the real code, exits 0 / prints PASS on the ORIGINAL code and exits non-zero / prints FAIL with your change. Verify both: `git stash` (or `git diff > /tmp/x.diff; git checkout -- openpectus`) to test the original, then re-apply. The demo must observe the property's own observable behaviour (not internals you invented).

Also run the relevant part of the existing test-suite with your change to make sure it still passes: at least the test files that touch the code you changed, e.g. `cd {wt} && /venv/bin/python -m pytest openpectus/test/<area> -q -p no:cacheprovider --timeout=900 -x` (some tests sleep; a full run takes ~6 minutes: `/venv/bin/python -m pytest -q -p no:cacheprovider --timeout=900 --continue-on-collection-errors`; the collection error for test_labjack_hardware.py is pre-existing and expected). Run the full suite once at the end if you can.

Deliverables, left in the worktree: (1) your change as `{wt}/patch.diff` produced with `cd {wt} && git diff -- openpectus > patch.diff` (leave the change applied as well); (2) `demo_{pid.lower()}.py`; (3) in your final message: what you changed and why it breaks the property, what exactly it needs in order to manifest, the demo output with and without the change, and which tests you ran with what result. If after honest effort you cannot find a change that keeps the existing tests green, say so and give the closest you got.""")
