import logging; logging.disable(logging.CRITICAL)
import re, itertools
from openpectus.lang.exec import units as U
from openpectus.lang.exec.regex import RegexNumber, RegexCategorical
from openpectus.lang.exec.uod import RegexNamedArgumentParser
allu=[u for u in U.get_supported_units()]
asym=[]
for a,b in itertools.product(allu, allu):
    try: x=U.are_comparable(a,b)
    except Exception as e: x=("EXC",type(e).__name__)
    try: y=U.are_comparable(b,a)
    except Exception as e: y=("EXC",type(e).__name__)
    if x!=y: asym.append((a,b,x,y))
print("asym", asym[:10], len(asym))
bad=[]
for a,b in itertools.product(allu, allu):
    try:
        if U.are_comparable(a,b):
            for op in ['<','<=','=','!=','>','>=']:
                try: U.compare_values(op,"1",a,"1",b)
                except Exception as e: bad.append((a,b,op,type(e).__name__,str(e)[:60])); break
    except Exception as e: pass
print("compare exceptions on comparable pairs:", len(bad)); 
for x in bad[:40]: print("  ",x)
print("32F=0C", U.compare_values("=","32","degF","0","degC"), U.compare_values("<","32","degF","0","degC"), U.compare_values(">","32","degF","0","degC"))
print("212F=100C", U.compare_values("=","212","degF","100","degC"))
print("273.15K=0C", U.compare_values("=","273.15","K","0","degC"))
print("0.1+0.2", U.compare_values("=","0.30000000000000004",None,"0.3",None), U.compare_values("<","0.1","s","0.10000000000000000001","s"))
print("60s=1min", U.compare_values("=","60","s","1","min"), U.compare_values("=","1","h","3600","s"), U.compare_values("=","100","s","1.6666666666666667","min"))
print("1/3 h", U.compare_values("<","1200","s","0.33333333333333333333333333333333","h"), U.compare_values(">","1200","s","0.33333333333333333333333333333333","h"),U.compare_values("=","1200","s","0.33333333333333333333333333333333","h"))
# categorical
r=RegexCategorical(additive_options=["A","B"])
for s in ["", "A", "A+B", "A++B", "+A", "A+", "+", "C", "A+A", " A", "A ", "A\n"]:
    print(repr(s), bool(re.search(r,s)))
r=RegexCategorical(exclusive_options=["Open","Closed"], additive_options=["A","B"])
for s in ["", "Open", "Open+A", "A+Open","OpenA", "AB"]:
    print(repr(s), bool(re.search(r,s)))
r=RegexCategorical(exclusive_options=["a|b","c("], additive_options=["x+y","z|"])
pz=RegexNamedArgumentParser(r)
try: print(pz.get_exclusive_options(), pz.get_additive_options())
except Exception as e: print("EXC", e)
for s in ["a|b","c(","x+y","z|","a","b","x","y","x+y+z|"]:
    print(repr(s), bool(re.search(r,s)))
rn=RegexNumber(units=["kg","L/h","a|b","%"])
print(RegexNamedArgumentParser(rn).get_units())
for s in ["1","1.","1.5",".5","-1","+1","1e5","1 kg","1kg","1  kg","1 L/h","1 a|b","1 a","1 %","", " ", "1\n", "١", "1,5", "--1", "1.5.2", "- 1"]:
    m=re.search(rn,s); print(repr(s), m.groupdict() if m else None)
rn=RegexNumber(units=None, non_negative=True, int_only=True)
for s in ["1","1.0","-1","01"," 7 ","7x"]:
    m=re.search(rn,s); print(repr(s), m.groupdict() if m else None)
