import logging; logging.disable(logging.CRITICAL)
import asyncio
from unittest.mock import Mock, AsyncMock
import openpectus.aggregator.data.models as DMdl
import openpectus.aggregator.models as Mdl
import openpectus.protocol.engine_messages as EM
import openpectus.protocol.aggregator_messages as AM
import openpectus.protocol.messages as M
from openpectus.aggregator.aggregator import Aggregator
from openpectus.aggregator.aggregator_message_handlers import AggregatorMessageHandlers
from openpectus.aggregator.data import database
from openpectus.protocol.aggregator_dispatcher import AggregatorDispatcher
from openpectus import __version__
from sqlalchemy import select, func

async def main():
    database.configure_db("sqlite:///:memory:")
    DMdl.DBModel.metadata.create_all(database._engine)
    disp=AggregatorDispatcher()
    pub=Mock(); 
    for n in dir(Mock()): pass
    class Pub:
        def __getattr__(s,n):
            if n.startswith("publish"): return AsyncMock()
            raise AttributeError(n)
        def register_on_disconnect(s,cb): s.cb=cb
        pubsub_endpoint=Mock()
    agg=Aggregator(disp, Pub(), Mock(publish_message=AsyncMock()))
    h=AggregatorMessageHandlers(agg)
    def reg(c,u): return EM.RegisterEngineMsg(computer_name=c,uod_name=u,uod_author_name="a",uod_author_email="e",uod_filename="f",location="l",engine_version=__version__)
    print("ids:", agg.create_engine_id(reg("a_b","c")), agg.create_engine_id(reg("a","b_c")))
    r=await h.handle_RegisterEngineMsg(reg("pc","uod")); eid=r.engine_id
    with database.create_scope():
        await h.handle_RunStartedMsg(EM.RunStartedMsg(engine_id=eid, run_id="R1", started_tick=1000.0))
        await h.handle_RunStartedMsg(EM.RunStartedMsg(engine_id=eid, run_id="R1", started_tick=1000.0))
    with database.create_scope():
        s=database.scoped_session()
        print("plotlogs for R1:", s.scalar(select(func.count()).select_from(DMdl.PlotLog).where(DMdl.PlotLog.run_id=="R1")))
    # save_method race
    ed=agg._engine_data_map[eid]
    calls=[]
    async def rpc_call(engine_id, message):
        calls.append(message.method.version); await asyncio.sleep(0.01); return M.SuccessMessage()
    agg.from_frontend.dispatcher=Mock(rpc_call=rpc_call)
    async def save(tag):
        m=Mdl.Method(lines=[Mdl.MethodLine(id="1",content=tag)],version=0,last_author=tag)
        try: return await agg.from_frontend.save_method(eid, m, Mdl.Contributor(id=tag,name=tag))
        except Exception as e: return type(e).__name__
    print("concurrent saves:", await asyncio.gather(save("u1"), save("u2")), "final", ed.method.version, ed.method.lines[0].content)
    # active users
    ff=agg.from_frontend
    await ff.user_subscribed_pubsub("c1",["dead_man_switch/U"])
    await ff.register_active_user(eid,"U","U")
    await ff.on_ws_disconnect("c1"); print("after c1 close:", list(ed.active_users))
    await ff.user_subscribed_pubsub("c2",["dead_man_switch/U"])
    await ff.register_active_user(eid,"U","U")
    await ff.on_ws_disconnect("c2"); print("after c2 close:", list(ed.active_users), ff.dead_man_switch_user_ids)
    try: await ff.on_ws_disconnect("c3")
    except Exception as e: print("disconnect of never-subscribed:", type(e).__name__)
    await asyncio.sleep(0.05)
asyncio.run(main())
