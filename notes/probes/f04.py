from drv import *
import drv; drv.Drv.raw=True
import openpectus.lang.exec.pinterpreter as PI
EVAL=[]
orig=PI.PInterpreter._evaluate_condition
def wrapped(self, node):
    r=orig(self,node); EVAL.append((self._tick_number, node.id, r)); return r
PI.PInterpreter._evaluate_condition=wrapped
def run(code, traj, n=40, hook=None):
    EVAL.clear(); d=Drv(code); d.start()
    marks=[]
    for k in range(n):
        d.uod.hwl.mem["FT01"]=traj(k)
        if hook: hook(d,k)
        d.tick(); marks.append(d.tag("Mark"))
    print(code); 
    chg=[(i+1,m) for i,m in enumerate(marks) if i==0 or m!=marks[i-1]]
    print("   mark changes (engine tick no, value):", chg)
    tr=[(t,i) for t,i,r in EVAL if r]
    print("   true evals:", tr[:12], "... total evals", len(EVAL))
    return d
run("Watch: FT01 > 3 L/h\n    Mark: w\nMark: m\n", lambda k: 5.0 if k==8 else 0.0)          # 1-tick pulse
run("Watch: FT01 > 3 L/h\n    Mark: w\nMark: m\n", lambda k: 5.0 if 8<=k<=9 else 0.0)
run("Alarm: FT01 > 3 L/h\n    Mark: a\nMark: m\n", lambda k: 5.0 if 8<=k<=20 else 0.0)
run("Block: B\n    Watch: FT01 > 3 L/h\n        Mark: w\n    Wait: 0.5s\n    End block\nMark: m\n", lambda k: 5.0 if k>=12 else 0.0)
def hk(d,k):
    if k==6:
        it=[i for i in d.e.tracking.get_runlog().items if i.name.startswith("Watch")]
        print("   items", [(i.name,str(i.state),i.cancellable,i.id[:4]) for i in it])
        d.e.cancel_instruction(it[-1].id)
run("Watch: FT01 > 3 L/h\n    Mark: w\nMark: m\n", lambda k: 5.0 if k>=10 else 0.0, hook=hk)
