import logging; logging.disable(logging.CRITICAL)
from openpectus.engine import hardware_recovery as HR
from openpectus.engine.hardware import HardwareLayerBase, HardwareLayerException, Register, RegisterDirection
from openpectus.lang.exec.tags import Tag
class FT:
    t=1000.0
    @staticmethod
    def time(): return FT.t
HR.time = FT
class HW(HardwareLayerBase):
    def __init__(s): super().__init__(); s.mem={}; s.fail=False; s.log=[]
    def read(s,r):
        if s.fail: raise HardwareLayerException("x")
        return s.mem.get(r.name)
    def write(s,v,r):
        if s.fail: raise HardwareLayerException("x")
        s.mem[r.name]=v; s.log.append((r.name,v))
    def connect(s):
        if s.fail: raise HardwareLayerException("c")
        super().connect()
hw=HW(); hw.connect()
A=Register("A",RegisterDirection.Both); hw.registers["A"]=A
tag=Tag("Connection Status", value="x")
d=HR.ErrorRecoveryDecorator(hw, HR.ErrorRecoveryConfig(), tag)
d.write_batch([1],[A]); print(d.state, hw.mem)
hw.fail=True
d.write_batch([2],[A]); print(d.state, hw.mem, d.pending_writes)
d.write_batch([3],[A]); print(d.state, hw.mem, d.pending_writes)
hw.fail=False
d.write_batch([3],[A]); print(d.state, hw.mem, d.pending_writes)
d.write_batch([4],[A]); print(d.state, hw.mem, d.pending_writes)
d.write_batch([4],[A]); print(d.state, hw.mem, d.pending_writes, "<- engine commanded 4")
