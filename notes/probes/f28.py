import logging; logging.disable(logging.CRITICAL)
import asyncio, os, tempfile
from unittest.mock import Mock, AsyncMock
import openpectus.aggregator.data.models as DMdl
import openpectus.aggregator.models as Mdl
import openpectus.protocol.models as PM
import openpectus.protocol.engine_messages as EM
from fastapi_websocket_rpc.schemas import RpcResponse
from openpectus.aggregator.aggregator import Aggregator
from openpectus.aggregator.aggregator_message_handlers import AggregatorMessageHandlers
from openpectus.aggregator.data import database
from openpectus.protocol.aggregator_dispatcher import AggregatorDispatcher
from openpectus import __version__
from sqlalchemy import select, func
class Pub:
    def __getattr__(s,n):
        if n.startswith("publish"): return AsyncMock()
        raise AttributeError(n)
    def register_on_disconnect(s,cb): s.cb=cb
    pubsub_endpoint=Mock()
def mk():
    disp=AggregatorDispatcher(); agg=Aggregator(disp, Pub(), Mock(publish_message=AsyncMock())); h=AggregatorMessageHandlers(agg); return disp,agg,h
def reg(): return EM.RegisterEngineMsg(computer_name="pc",uod_name="uod",uod_author_name="a",uod_author_email="e",uod_filename="f",location="l",engine_version=__version__)
def uodinfo(eid): return EM.UodInfoMsg(engine_id=eid, readings=[PM.ReadingInfo(discriminator="reading",tag_name="T1",valid_value_units=None,entry_data_type=None,commands=[],command_options=None)],commands=[],uod_definition=PM.UodDefinition(commands=[],system_commands=[],tags=[]),plot_configuration=PM.PlotConfiguration.empty(),hardware_str="h",required_roles=set(),data_log_interval_seconds=1.0)
def tags(eid, run, t, v): return EM.TagsUpdatedMsg(engine_id=eid, run_id=run, tags=[PM.TagValue(name="T1",tick_time=t,value=v,value_unit=None), PM.TagValue(name="System State",tick_time=t,value="Running",value_unit=None)])
def counts():
    with database.create_scope():
        s=database.scoped_session()
        return dict(plotlogs=s.scalar(select(func.count()).select_from(DMdl.PlotLog)), values=s.scalar(select(func.count()).select_from(DMdl.PlotLogEntryValue)), recent_runs=s.scalar(select(func.count()).select_from(DMdl.RecentRun)), recent_engines=s.scalar(select(func.count()).select_from(DMdl.RecentEngine)))
async def chan(disp, eid):
    ch=Mock(close=AsyncMock(), other=Mock(get_engine_id_async=AsyncMock(return_value=RpcResponse[str|None](result=eid,result_type=None))))
    await disp._on_delayed_client_connect(ch); return ch
async def main():
    d=tempfile.mkdtemp(prefix="opvp"); db=os.path.join(d,"a.sqlite3")
    database.configure_db(f"sqlite:///{db}"); DMdl.DBModel.metadata.create_all(database._engine)
    disp,agg,h=mk()
    r=await h.handle_RegisterEngineMsg(reg()); eid=r.engine_id; ch=await chan(disp,eid)
    await h.handle_UodInfoMsg(uodinfo(eid))
    with database.create_scope(): await h.handle_RunStartedMsg(EM.RunStartedMsg(engine_id=eid, run_id="R1", started_tick=1000.0))
    await h.handle_TagsUpdatedMsg(tags(eid,"R1",1001.0,1.0)); await h.handle_TagsUpdatedMsg(tags(eid,"R1",1003.0,2.0))
    print("before disconnect", counts())
    await disp.on_client_disconnect(ch)
    print("after disconnect", counts(), "registered:", agg.has_registered_engine_id(eid))
    r=await h.handle_RegisterEngineMsg(reg()); ch=await chan(disp,eid); await h.handle_UodInfoMsg(uodinfo(eid))
    ed=agg.get_registered_engine_data(eid); print("restored run:", ed.has_run() and ed.run_data.run_id)
    await h.handle_TagsUpdatedMsg(tags(eid,"R1",1006.0,3.0)); print("after reconnect tags", counts())
    # graceful aggregator restart
    agg.shutdown()
    disp,agg,h=mk()
    r=await h.handle_RegisterEngineMsg(reg()); ch=await chan(disp,eid); await h.handle_UodInfoMsg(uodinfo(eid))
    ed=agg.get_registered_engine_data(eid); print("after restart run:", ed.has_run() and ed.run_data.run_id)
    await h.handle_TagsUpdatedMsg(tags(eid,"R1",1009.0,4.0)); print("after restart tags", counts())
    await h.handle_RunStoppedMsg(EM.RunStoppedMsg(engine_id=eid, run_id="R1", runlog=PM.RunLog.empty(), method_state=PM.MethodState.empty(), archive=None, archive_filename=None))
    await h.handle_RunStoppedMsg(EM.RunStoppedMsg(engine_id=eid, run_id="R1", runlog=PM.RunLog.empty(), method_state=PM.MethodState.empty(), archive=None, archive_filename=None))
    print("after stop x2", counts())
    with database.create_scope():
        s=database.scoped_session(); print([ (v.tick_time, v.value) for v in s.scalars(select(DMdl.PlotLogEntryValue)).all()])
    await asyncio.sleep(0.05)
    import shutil; shutil.rmtree(d)
asyncio.run(main())
