from drv import *
for code in ["Hold: -1s\n", "Pause: 5 x\n", "Unpause\n", "Mark: A\nUnpause\n"]:
    d=Drv(code); d.start()
    for k in range(8):
        d.tick()
        try: d.e.tracking.get_runlog()
        except Exception as ex:
            print(repr(code), "tick", k, "RUNLOG RAISED", type(ex).__name__)
            for r in d.e.tracking.runtimeinfo.records:
                print("   ", r.name, r.node_class_name, [(s.state_name.value, s.instance_id[:4]) for s in r.states])
            break
    else: print(repr(code), "ok", d.tag("System State"), d.tag("Method Status"))
