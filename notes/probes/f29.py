import logging; logging.disable(logging.CRITICAL)
import asyncio, random, sys, collections
from unittest.mock import Mock, AsyncMock
import openpectus.aggregator.data.models as DMdl
import openpectus.protocol.models as PM
import openpectus.protocol.engine_messages as EM
from openpectus.aggregator.aggregator import Aggregator
from openpectus.aggregator.aggregator_message_handlers import AggregatorMessageHandlers
from openpectus.aggregator.data import database
from openpectus.protocol.aggregator_dispatcher import AggregatorDispatcher
from openpectus import __version__
from sqlalchemy import select
class Pub:
    def __getattr__(s,n):
        if n.startswith("publish"): return AsyncMock()
        raise AttributeError(n)
    def register_on_disconnect(s,cb): pass
    pubsub_endpoint=Mock()
TAGS=["T1","T2","T3"]
async def one(seed):
    R=random.Random(seed)
    database.configure_db("sqlite:///:memory:"); DMdl.DBModel.metadata.create_all(database._engine)
    disp=AggregatorDispatcher(); agg=Aggregator(disp, Pub(), Mock(publish_message=AsyncMock())); h=AggregatorMessageHandlers(agg)
    r=await h.handle_RegisterEngineMsg(EM.RegisterEngineMsg(computer_name="pc",uod_name="u",uod_author_name="a",uod_author_email="e",uod_filename="f",location="l",engine_version=__version__)); eid=r.engine_id
    interval=R.choice([0.5,1.0,5.0])
    await h.handle_UodInfoMsg(EM.UodInfoMsg(engine_id=eid, readings=[PM.ReadingInfo(discriminator="reading",tag_name=t,valid_value_units=None,entry_data_type=None,commands=[],command_options=None) for t in TAGS],commands=[],uod_definition=PM.UodDefinition(commands=[],system_commands=[],tags=[]),plot_configuration=PM.PlotConfiguration.empty(),hardware_str="h",required_roles=set(),data_log_interval_seconds=interval))
    with database.create_scope(): await h.handle_RunStartedMsg(EM.RunStartedMsg(engine_id=eid, run_id="R", started_tick=1000.0))
    reports=collections.defaultdict(list); t=1000.0; msgs=[]
    for i in range(R.randint(5,30)):
        t+=R.choice([0.1,0.3,0.7,1.5]); n=R.randint(1,3)
        tv=[PM.TagValue(name=tg,tick_time=t,value=float(i*10+j),value_unit=None) for j,tg in enumerate(R.sample(TAGS if i>2 or R.random()<0.5 else TAGS[:2],min(n, 2 if i<=2 else 3)))]
        msgs.append(tv)
    order=list(range(len(msgs)))
    if R.random()<0.5:
        for _ in range(R.randint(1,3)):
            a=R.randrange(len(order)); b=min(len(order)-1,a+R.randint(1,2)); order[a],order[b]=order[b],order[a]
    if R.random()<0.3: order.insert(R.randrange(len(order)), R.choice(order))
    for ix in order:
        tv=[x.model_copy() for x in msgs[ix]]
        for x in tv: reports[x.name].append((x.tick_time,x.value))
        await h.handle_TagsUpdatedMsg(EM.TagsUpdatedMsg(engine_id=eid, run_id="R", tags=tv))
    out=[]
    with database.create_scope():
        s=database.scoped_session()
        rows=s.execute(select(DMdl.PlotLogEntry.name, DMdl.PlotLogEntryValue.tick_time, DMdl.PlotLogEntryValue.value_float, DMdl.PlotLogEntryValue.id).join(DMdl.PlotLogEntryValue, DMdl.PlotLogEntryValue.plot_log_entry_id==DMdl.PlotLogEntry.id).order_by(DMdl.PlotLogEntryValue.id)).all()
    times=[]
    for name,tt,v,_id in rows:
        if not times or times[-1]!=tt: times.append(tt)
    v=[]
    if any(b<=a for a,b in zip(times,times[1:])): v.append(("not-increasing",times))
    if any(b-a<=interval-1e-9 for a,b in zip(times,times[1:])): v.append(("throttle",interval,[round(b-a,3) for a,b in zip(times,times[1:])]))
    per=collections.defaultdict(list)
    for name,tt,val,_ in rows:
        per[name].append((tt,val))
        if not any(rv==val and rt<=tt+1e-9 for rt,rv in reports[name]): v.append(("unfaithful",name,tt,val))
    for name,lst in per.items():
        # never older than one already recorded: the report time of each recorded value must be non-decreasing
        rts=[max(rt for rt,rv in reports[name] if rv==val and rt<=tt+1e-9) for tt,val in lst if any(rv==val and rt<=tt+1e-9 for rt,rv in reports[name])]
        if any(b<a for a,b in zip(rts,rts[1:])): v.append(("older-after-newer",name,lst))
    await asyncio.sleep(0)
    return v, len(rows), order!=sorted(order)
async def main():
    seed0=int(sys.argv[1]); N=int(sys.argv[2]); bad=collections.Counter(); first={}; rows=0; ooo=0
    for i in range(N):
        v,nr,o=await one(seed0*10000+i); rows+=nr; ooo+=o
        for x in v: bad[x[0]]+=1; first.setdefault(x[0],(seed0*10000+i,x))
    print("streams",N,"rows",rows,"out-of-order streams",ooo, dict(bad)); 
    for k,v in first.items(): print(k, str(v)[:400])
asyncio.run(main())
