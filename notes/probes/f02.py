import random, sys, collections
from drv import *
import drv; drv.Drv.raw=True
import openpectus.lang.model.ast as p
from g import Gen
EV=[]; TICK=[0]
def mk(name, default=False):
    priv="_opv_"+name
    def g(self): return self.__dict__.get(priv, default)
    def s(self,v):
        old=self.__dict__.get(priv, default); self.__dict__[priv]=v
        if old!=v: EV.append((TICK[0], name, self.id, type(self).__name__, old, v, id(self)))
    return property(g,s)
p.Node.started=mk("started"); p.Node.completed=mk("completed")
p.BlockNode.lock_acquired=mk("lock"); p.BlockNode.block_ended=mk("ended")
p.NodeWithChildren.child_index=mk("child_index",0)
viol=collections.Counter(); first={}
def V(k, code, detail=""):
    viol[k]+=1; first.setdefault(k,(code,detail))
seed0=int(sys.argv[1]); N=int(sys.argv[2]); stopmode=sys.argv[3] if len(sys.argv)>3 else "none"
nontriv=0
for i in range(N):
    R=random.Random(seed0*100000+i)
    code=Gen(R).program(R.randint(3,9))
    EV.clear(); TICK[0]=0
    d=Drv(code)
    traj=[R.choice([0.0,0.0,0.0,2.0,4.0,6.0]) for _ in range(200)]
    stop_at = R.randint(2,60) if stopmode!="none" else None
    try:
        d.start()
        stopped=False
        for k in range(120):
            TICK[0]=k+1
            d.uod.hwl.mem["FT01"]=traj[k]
            if stop_at==k:
                try: d.e.execute_control_command_from_user("Stop" if stopmode=="stop" else "Restart")
                except ValueError: pass
            d.tick()
            # C05 invariant at tick end
            prog=d.e.interpreter._program
            locked=[n for n in prog.get_all_nodes() if isinstance(n,p.BlockNode) and n.lock_acquired and not n.block_ended]
            chain=all((a in b.parents) or (b in a.parents) for a in locked for b in locked if a is not b)
            if not chain: V("C05.chain", code)
            bt=d.tag("Block")
            if locked:
                inner=max(locked, key=lambda n: len(n.parents))
                if bt!=inner.name: V("C05.blocktag", code, (k,bt,inner.name,[b.name for b in locked]))
            elif bt not in (None,""):
                if d.tag("System State")!="Stopped": V("C05.blocktag_nonempty", code, (k,bt))
            # C11 exclusivity per tick
        # pairing
        insts=collections.defaultdict(list)
        for x in d.log: insts[x[2]].append(x[0])
        for iid,seq in insts.items():
            if seq.count("init")!=1 or seq[0]!="init": V("C11.init", code, seq)
            if seq.count("fin")>1: V("C11.fin_twice", code, seq)
            if "fin" in seq and seq.index("fin")!=len(seq)-1: V("C11.exec_after_fin", code, seq)
        if stopmode=="stop" and d.tag("System State")=="Stopped":
            if d.uod.command_instances: V("C10.instances_left", code, list(d.uod.command_instances))
            for iid,seq in insts.items():
                if "fin" not in seq: V("C10.no_fin", code, seq)
            if d.tag("Run Id") is not None: V("C10.runid", code)
            if any(t.simulated for t in d.e.tags): V("C10.sim", code)
        # C02 exactly-once for marks outside alarm/macro bodies  (labels unique)
        if stopmode=="none" and not d.e.has_error_state():
            marks=(d.tag("Mark") or "").split("; ") if d.tag("Mark") else []
            prog=d.e.interpreter._program
            rep_ok=set()
            for n in prog.get_all_nodes():
                if isinstance(n,(p.AlarmNode,p.MacroNode)):
                    for c in n.get_child_nodes(recursive=True):
                        if isinstance(c,p.MarkNode): rep_ok.add(c.name)
            cnt=collections.Counter(marks)
            for lab,c in cnt.items():
                if c>1 and lab not in rep_ok: V("C02.mark_twice", code, (lab,c))
            # started twice events per node object without reset
            st=collections.Counter((e[2],e[6]) for e in EV if e[1]=="started" and e[5] is True)
            rs=collections.Counter((e[2],e[6]) for e in EV if e[1]=="started" and e[5] is False)
            for key,c in st.items():
                if c-rs.get(key,0)>1: V("C02.started_twice", code, key)
            nontriv+=1
        if d.e.has_error_state(): viol["(runs ending in error state)"]+=1; first.setdefault("(err)", (code, str(d.e.get_error_state_exception())[:300]))
    except Exception as ex:
        V("EXC:"+type(ex).__name__, code, str(ex)[:200])
    finally:
        d.e.cleanup()
print("runs", N, "nontrivial", nontriv)
for k,v in viol.items():
    print(k, v)
for k,(c,dtl) in first.items():
    print("----", k, dtl); print(c)
