from drv import *
d=Drv("Block: A\n    Mark: x\n    Simulate: X = 5\n    Hold: 0.5s\n    Wait: 0.3s\n    End block\nMark: y\nRestart\n")
d.start()
def drain():
    out=[]
    q=d.e.tag_updates
    while not q.empty(): out.append(q.get_nowait().name)
    return out
drain()
for i in range(25):
    d.tick()
    names=drain()
    print(i, d.tag("System State"), "Block=",d.tag("Block"), "bt=%.2f st=%.2f pt=%.2f rt=%.2f"%(d.tag("Block Time"),d.tag("Scope Time"),d.tag("Process Time"),d.tag("Run Time")), "blocktag_time", d.e.tags["Block"].tick_time, "X time", d.e.tags["X"].tick_time, "reported:", [n for n in names if n not in ("Clock",)])
