import logging, time, sys
logging.disable(logging.CRITICAL)
from typing import Any
from openpectus.engine.engine import Engine, EngineTiming
from openpectus.engine.hardware import HardwareLayerBase, Register, RegisterDirection
from openpectus.lang.exec.clock import Clock
from openpectus.lang.exec.timer import NullTimer
from openpectus.lang.exec.tags import Tag, TagDirection
from openpectus.lang.exec.tags_impl import ReadingTag, SelectTag
from openpectus.lang.exec.uod import UodBuilder, UodCommand
from openpectus.lang.exec.regex import RegexNumber
import openpectus.protocol.models as Mdl

class RecHW(HardwareLayerBase):
    def __init__(self):
        super().__init__(); self.mem = {}; self.writes = []
    def read(self, r): return self.mem.get(r.name, 0.0 if r.name=="FT01" else 0)
    def write(self, v, r): self.mem[r.name]=v; self.writes.append((r.name, v))
    def connect(self): self._is_connected=True
    def disconnect(self): self._is_connected=False

class VClock(Clock):
    def __init__(self): self.t = 1000.0
    def get_time(self): return self.t

def make_uod(log):
    def long_exec(cmd, **kw):
        log.append(("exec", cmd.name, cmd.instance_id, cmd.get_iteration_count()))
        if cmd.get_iteration_count() >= 4: cmd.set_complete()
    def short_exec(cmd, **kw):
        log.append(("exec", cmd.name, cmd.instance_id, cmd.get_iteration_count()))
        cmd.set_complete()
    def init(cmd): log.append(("init", cmd.name, cmd.instance_id))
    def fin(cmd): log.append(("fin", cmd.name, cmd.instance_id))
    def danger(cmd, value):
        cmd.context.tags["Danger"].set_value(value=="on", 0); cmd.set_complete()
    b = (UodBuilder().with_instrument("T").with_author("a","b").with_filename("f").with_hardware(RecHW()).with_location("l")
      .with_hardware_register("FT01", RegisterDirection.Both)
      .with_hardware_register("Danger", RegisterDirection.Write, safe_value=False)
      .with_tag(ReadingTag("FT01","L/h"))
      .with_tag(Tag("Danger", value=True, unit=None, direction=TagDirection.Output))
      .with_tag(Tag("X", value=0, unit=None))
      .with_command(name="Long", exec_fn=long_exec, init_fn=init, finalize_fn=fin)
      .with_command(name="Long2", exec_fn=long_exec, init_fn=init, finalize_fn=fin)
      .with_command(name="Short", exec_fn=short_exec, init_fn=init, finalize_fn=fin)
      .with_command(name="Danger", exec_fn=danger)
      .with_command_overlap(["Long","Long2"]))
    uod = b.build(); uod.hwl.connect(); return uod

class Drv:
    raw=False
    def __init__(self, pcode=""):
        self.log=[]; self.uod=make_uod(self.log); self.clock=VClock()
        self.e=Engine(self.uod, EngineTiming(self.clock, NullTimer(), 0.1, 1.0))
        self.e.run(skip_timer_start=True)
        self.e.set_method(Mdl.Method.from_pcode(pcode) if getattr(self,"raw",False) or not Mdl.Method.is_probably_numbered_pcode(pcode) else Mdl.Method.from_numbered_pcode(pcode))
        self.first=True
    def tick(self, n=1, dt=0.1):
        for _ in range(n):
            inc = 0.0 if self.first else dt
            self.first=False
            self.clock.t += dt
            self.e.tick(self.clock.t, inc)
    def start(self):
        self.e.execute_control_command_from_user("Start"); self.tick()
    def tag(self, n): return self.e.tags[n].get_value()
    def marks(self): return self.e.interpreter.get_marks()
