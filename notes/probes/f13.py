import random, sys, traceback
from drv import *
import drv
from openpectus.lang.exec.uod import UodCommandBuilder
R=random.Random(int(sys.argv[1]) if len(sys.argv)>1 else 0)
LINES=["Mark: {l}","Short","Long","Long2","Wait: {w}s","{t} Mark: {l}","Block: {l}","End block","End blocks","Watch: FT01 > {n} L/h","Alarm: X = {n}","Watch: X > {n}",
 "Macro: {m}","Call macro: {m}","Pause","Pause: {w}s","Hold: {w}s","Hold","Stop","Restart","Simulate: X = {n}","Simulate off: X","Increment run counter","Run counter: {n}","Base: s","Base: min","Base: L","Info: hi","Warning: w","Error: e","Notify: n","Batch: b","Noop: {n}",
 "Bogus","Bogus: 1","Watch: Nope > 1","Watch: FT01 > 3 kg","Watch: FT01 >","Watch","Wait: abc","Wait","Mark","Simulate: Nope = 1","Simulate off: Nope","Call macro: nope","Run counter: x","Pause: 5 x","Hold: -1s","Danger: on","Danger: zz","Unpause","Unhold","Start","# c","","   ","Block","Macro","Alarm: FT01 < 1 L/h","Watch: X = a","Watch: X != 2","Watch: Mark = A","1.5.2 Mark: z",": x","Mark: # c","Mark: a # c","مرحبا","Mark: é中"]
def gen():
    n=R.randint(1,14); out=[]; ind=0
    for _ in range(n):
        s=R.choice(LINES).format(l=R.choice("ABCDEFG"),w=R.choice(["0.1","0.3","0.5","1","0"]),t=R.choice(["0.2","0.5","1","0"]),n=R.randint(0,5),m=R.choice("MN"))
        r=R.random()
        if r<0.15: ind=max(0,ind-4)
        elif r<0.2: ind=max(0,ind-8)
        if R.random()<0.03: ind+=R.choice([1,2,4,8])
        out.append(" "*ind+s)
        if s.split(":")[0] in ("Block","Watch","Alarm","Macro") and R.random()<0.9: ind+=4
    return "\n".join(out)+"\n"
bad=0; N=int(sys.argv[2]) if len(sys.argv)>2 else 1500
stats={"err":0,"ok":0}
for i in range(N):
    code=gen()
    drv.Drv.raw=True; d=Drv(code)
    traj=[R.choice([0.0,0.0,2.0,4.0,6.0]) for _ in range(60)]
    try:
        d.start()
        for k in range(50):
            d.uod.hwl.mem["FT01"]=traj[k]
            if R.random()<0.05:
                c=R.choice(["Pause","Unpause","Hold","Unhold","Stop","Start","Restart"])
                try: d.e.execute_control_command_from_user(c)
                except ValueError: pass
            d.tick()
            try: d.e.tracking.get_runlog()
            except Exception as ex:
                stats["runlog_raise"]=stats.get("runlog_raise",0)+1; break
        stats["err" if d.e.has_error_state() else "ok"]+=1
    except Exception as ex:
        bad+=1; print("TICK RAISED", type(ex).__name__, str(ex)[:200]); print(repr(code)); traceback.print_exc(limit=6)
    finally:
        try: d.e.cleanup()
        except Exception as ex: print("cleanup", ex)
print("done", N, "bad", bad, stats)
