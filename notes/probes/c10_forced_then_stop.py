"""C10 probe: a running method-issued UOD command that the operator forced is cancelled and finalized by Stop/Restart,
but its line in the run-stopped message has no end (mark_cancelled raises: the forced node refuses cancel())."""
import sys
sys.path[:0] = ["/repo", "/verif"]
from opv.rigs import engine_rig as R      # noqa: E402
from opv.rigs import cmd_rig as CR        # noqa: E402

for kind in ("Stop", "Restart"):
    rig = R.EngineRig("Base: s\nMark: A\nLong\nWait: 3s\n", long_n=8)
    sl = CR.StopListener(rig)
    rq = CR.Requests(rig)
    rig.start()
    rig.tick(7)
    item = [i for i in rig.runlog().items if i.name == "Long"][0]
    print(kind, "force accepted:", rq.force(item.id))
    rig.tick(2)
    rig.user(kind)
    rig.tick(3)
    print("  callbacks:", [(e[0], e[1]) for e in rig.cmdlog if e[1] != "exec"])
    print("  run-stopped line:", [(ln.command_name, ln.end, ln.cancelled, ln.forced)
                                  for ln in sl.stops[0]["msg"].runlog.lines if ln.command_name == "Long"])
    rig.close()
