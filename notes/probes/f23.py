import logging; logging.disable(logging.CRITICAL)
import itertools, sys
from openpectus.engine import hardware_recovery as HR
from openpectus.engine.hardware import HardwareLayerBase, HardwareLayerException, Register, RegisterDirection
from openpectus.lang.exec.tags import Tag
S=HR.ErrorRecoveryState
class FT:
    t=1000.0
    @staticmethod
    def time(): return FT.t
HR.time=FT
class HW(HardwareLayerBase):
    def __init__(s): super().__init__(); s.rfail=False; s.wfail=False; s.cfail=False; s.n=0; s.last={}
    def read(s,r):
        if s.rfail: raise HardwareLayerException("r")
        s.n+=1; s.last[r.name]=s.n; return s.n
    def write(s,v,r):
        if s.wfail: raise HardwareLayerException("w")
    def connect(s):
        if s.cfail: raise HardwareLayerException("c")
        super().connect()
ALPHA=["r_ok","r_fail","w_ok","w_fail","t_ok","t_fail","adv1","adv11","advBig"]
L=int(sys.argv[1]); mism={}; n=0
for seq in itertools.product(ALPHA, repeat=L):
    n+=1; FT.t=1000.0
    hw=HW(); hw.connect(); A=Register("A",RegisterDirection.Both); hw.registers["A"]=A
    tag=Tag("Connection Status", value="Disconnected")
    d=HR.ErrorRecoveryDecorator(hw, HR.ErrorRecoveryConfig(), tag)
    d.reconnect_backoff_ticks=[0,1,2,3,4,5,6,7,8,9]  # attempt on every tick for the probe
    st="OK"; last_succ=FT.t; issue_enter=None; rec_enter=None; lkg=None
    for a in seq:
        before=d.state
        try:
            raised=False; val=None
            if a in("r_ok","r_fail"):
                hw.rfail=(a=="r_fail"); 
                try: val=d.read(A)
                except HardwareLayerException: raised=True
            elif a in("w_ok","w_fail"):
                hw.wfail=(a=="w_fail")
                try: d.write(FT.t, A)
                except HardwareLayerException: raised=True
            elif a in("t_ok","t_fail"):
                hw.cfail=(a=="t_fail"); d.tick()
            elif a=="adv1": FT.t+=1
            elif a=="adv11": FT.t+=11
            else: FT.t+=5*3600+1
        except Exception as ex:
            mism.setdefault(("EXC",type(ex).__name__,str(ex)[:60]),seq); break
        # checks independent of model
        cs=tag.get_value()
        if (cs=="Disconnected") != (d.state in (S.Disconnected,S.Error)): mism.setdefault(("status",str(d.state),cs),seq)
        if a[0] in "rw":
            if before in (S.Issue,S.Reconnect) and raised: mism.setdefault(("raise-in-masked",str(before),a),seq)
            if before==S.Error and not raised: mism.setdefault(("no-raise-in-error",a),seq)
            if a=="r_ok" and before==S.OK and not raised and val!=hw.last.get("A"): mism.setdefault(("val",),seq)
            if a[0]=="r" and before in (S.Issue,S.Reconnect) and not raised and a=="r_fail" and val!=hw.last.get("A"): mism.setdefault(("lkg",str(before),val,hw.last.get("A")),seq)
        # transition sanity
        tr=(str(before).split(".")[1], a, str(d.state).split(".")[1])
        mism.setdefault(("T",)+tr, seq) if False else None
        allowed={("OK","Issue"),("Issue","OK"),("Issue","Reconnect"),("Reconnect","OK"),("Reconnect","Error"),("Error","OK")}
        if before!=d.state and (tr[0],tr[2]) not in allowed: mism.setdefault(("bad-transition",)+tr,seq)
print("sequences",n)
for k,v in mism.items(): print(k,"first at",v)
