import logging; logging.disable(logging.CRITICAL)
import os, tempfile, shutil
d=tempfile.mkdtemp(prefix="opvp")
from fastapi.testclient import TestClient
from openpectus.aggregator.aggregator_server import AggregatorServer
import openpectus.aggregator.routers.auth as auth
import openpectus.aggregator.models as Mdl, openpectus.protocol.models as PM
import openpectus.aggregator.data.models as DMdl
from openpectus.aggregator.data import database
srv=AggregatorServer(db_path=os.path.join(d,"a.sqlite3"), webpush_keys_path=d)
DMdl.DBModel.metadata.create_all(database._engine)
app=srv.fastapi
ed=Mdl.EngineData(engine_id="E1",computer_name="pc",engine_version="1",uod_name="SENTINELUOD",uod_author_name="a",uod_author_email="e",uod_filename="f",location="SENTINELLOC")
ed.required_roles={"A"}
ed.tags_info.upsert(PM.TagValue(name="SENTINELTAG",tick_time=1.0,value="SENTINELVAL",value_unit=None))
ed.uod_definition=PM.UodDefinition(commands=[PM.CommandDefinition(name="SENTINELCMD",validator=None,docstring=None)],system_commands=[],tags=[PM.TagDefinition(name="SENTINELTAG")])
srv.aggregator._engine_data_map["E1"]=ed
roles={"v":set()}
app.dependency_overrides[auth.user_roles]=lambda: roles["v"]
c=TestClient(app)
import re
routes=[(r.path, sorted(r.methods)) for r in app.routes if hasattr(r,"methods") and re.search(r"\{(unit_id|engine_id|run_id)\}", r.path)]
print(len(routes), "routes with unit/run param")
for path,methods in routes:
    if "GET" not in methods: continue
    url=path.replace("{unit_id}","E1").replace("{engine_id}","E1").replace("{run_id}","R1")
    roles["v"]=set(); r0=c.get(url); roles["v"]={"A"}; r1=c.get(url)
    nx=c.get(path.replace("{unit_id}","NOPE").replace("{engine_id}","NOPE").replace("{run_id}","NOPE"))
    print(f"{url:60s} noRole={r0.status_code} leak={'SENTINEL' in r0.text} | role={r1.status_code} | nonexistent={nx.status_code} same_as_nx={r0.text==nx.text}")
shutil.rmtree(d)
