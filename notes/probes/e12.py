import logging; logging.disable(logging.CRITICAL)
import json
from fastapi_websocket_rpc.schemas import RpcMessage, RpcRequest
import openpectus.protocol.engine_messages as EM, openpectus.protocol.models as Mdl
from openpectus.protocol.serialization import serialize, deserialize
def rt(msg):
    wire=RpcMessage(request=RpcRequest(method="dispatch_message_async", arguments={"message_json": serialize(msg)})).model_dump_json()
    back=deserialize(json.loads(wire)["request"]["arguments"]["message_json"])
    return back
pc=Mdl.PlotConfiguration(process_value_names_to_annotate=[], color_regions=[Mdl.PlotColorRegion(process_value_name="x", value_color_map={1:"red", 2.5:"blue","a":"c"})], sub_plots=[Mdl.SubPlot(axes=[Mdl.PlotAxis(label="l",process_value_names=["x"],y_max=1,y_min=0.5,color="r")],ratio=1)], x_axis_process_value_names=[])
m=EM.UodInfoMsg(readings=[],commands=[],uod_definition=Mdl.UodDefinition(commands=[],system_commands=[],tags=[]),plot_configuration=pc,hardware_str="h",required_roles={"a","b"},data_log_interval_seconds=1.0)
b=rt(m); print(type(b).__name__, b==m); print(b.plot_configuration.color_regions[0].value_color_map, b.required_roles)
t=EM.TagsUpdatedMsg(tags=[Mdl.TagValue(name="a",tick_time=1.0,value=1,value_unit=None), Mdl.TagValue(name="b",tick_time=1.0,value=1.0,value_unit=None), Mdl.TagValue(name="c",tick_time=1.0,value="1",value_unit=None),Mdl.TagValue(name="d",tick_time=1.0,value=float("inf"),value_unit=None)])
try:
    b=rt(t); print(b==t, [ (x.value, type(x.value).__name__) for x in b.tags])
except Exception as e: print("EXC", type(e).__name__, str(e)[:200])
for bad in [{"_type":"Nope","_ns":"openpectus.protocol.engine_messages"},{"_type":"PingMsg","_ns":"os"},{"_type":"Mdl","_ns":"openpectus.protocol.engine_messages"},{"_type":"WebPushNotification","_ns":"openpectus.protocol.engine_messages","title":"x"},{"_type":5,"_ns":"openpectus.protocol.messages"},[1],{}]:
    try: print(deserialize(bad))
    except Exception as e: print(type(e).__name__)
