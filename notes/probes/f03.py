from drv import *
import drv; drv.Drv.raw=True
import openpectus.lang.model.ast as p
EV=[]; CUR=[None]
def mk(name, default=False):
    priv="_opv_"+name
    def g(self): return self.__dict__.get(priv, default)
    def s(self,v):
        old=self.__dict__.get(priv, default); self.__dict__[priv]=v
        if old!=v and v is True and CUR[0] is not None:
            d=CUR[0]; EV.append((d.k, name, self.id, getattr(self,"threshold",None), d.tag("Block"), round(d.tag("Block Time"),3), round(d.tag("Scope Time"),3), d.tag("Base"), round(d.clock.t,2)))
    return property(g,s)
p.Node.started=mk("started")
def run(code, n=60, hook=None):
    EV.clear(); d=Drv(code); CUR[0]=d; d.k=0; d.start()
    for k in range(n):
        d.k=k+1
        if hook: hook(d,k)
        d.tick()
    print(code)
    for e in EV:
        if e[3] is not None or True: print("   tick",e[0],"id",e[2],"thr",e[3],"Block=",e[4],"bt",e[5],"st",e[6],"base",e[7],"t",e[8])
    rl=[(i.name, round(i.start-1000,2), round(i.end-1000,2) if i.end else None) for i in d.e.tracking.get_runlog().items]
    print("   runlog:", rl)
run("Base: s\n0.5 Mark: a\n1.0 Mark: b\nBlock: B\n    0.3 Mark: c\n    0.35 Mark: d\n    End block\n0.2 Mark: e\n", 40)
run("Mark: a\nWait: 0.5s\nMark: b\nWait: 0.25s\nMark: c\nWait: 0s\nMark: d\n", 30)
def hk(d,k):
    if k==4: d.e.execute_control_command_from_user("Pause")
    if k==14: d.e.execute_control_command_from_user("Unpause")
run("Mark: a\nWait: 0.5s\nMark: b\n1.2 Mark: c\n", 40, hk)
run("Base: min\n0.02 Mark: a\nBase: h\n0.0005 Mark: b\n", 40)
