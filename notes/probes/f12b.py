from drv import *
import drv; drv.Drv.raw=True
import traceback
code="\nWatch: FT01 > 1 L/h\n    Pause: 0.3s\n    \nMark: m1\n"
d=Drv(code); d.start(); d.tick(6)
def show():
    for i in d.e.tracking.get_runlog().items: print("   ", i.name, str(i.state), "C" if i.cancellable else "-", "F" if i.forcible else "-", i.id[:6])
show()
it=[i for i in d.e.tracking.get_runlog().items if i.name.startswith("Watch")][0]
try: d.e.force_instruction(it.id); print("force ok")
except Exception as ex: print("force rejected:", repr(ex)[:300])
show()
try: d.e.force_instruction(it.id); print("force#2 ok")
except Exception as ex: print("force#2 rejected:", repr(ex)[:200])
d.tick(3); show(); print(d.tag("System State"))
print("---- alarm completed item cancel")
code="Alarm: FT01 > 5 L/h\n    Wait: 0.2s\nMark: m1\n"
d=Drv(code); d.start(); d.uod.hwl.mem["FT01"]=6.0; d.tick(12); show()
it=[i for i in d.e.tracking.get_runlog().items if i.name.startswith("Alarm") and str(i.state)=="completed"][0]
print("offered cancellable:", it.cancellable)
try: d.e.cancel_instruction(it.id); print("cancel ok")
except Exception as ex: print("cancel rejected:", repr(ex)[:200])
try: show()
except Exception as ex: print("runlog raises:", repr(ex)[:100])
for r in d.e.tracking.runtimeinfo.records:
    if r.name and r.name.startswith("Alarm"): print([(s.state_name.value, s.instance_id[:4]) for s in r.states])
