import random, sys, collections
from drv import *
import drv; drv.Drv.raw=True
from g import Gen
viol=collections.Counter(); first={}
def V(k, code, detail=""):
    viol[k]+=1; first.setdefault(k,(code,detail))
def run(code, traj, inj=None, inj_at=None, n=120):
    d=Drv(code)
    try:
        d.start()
        for k in range(n):
            d.uod.hwl.mem["FT01"]=traj[k]
            if inj is not None and k==inj_at:
                if d.tag("System State")!="Stopped": d.e.inject_code(inj)
                else: return None
            d.tick()
        ms=d.e.method_manager.get_method_state()
        marks=(d.tag("Mark") or "").split("; ") if d.tag("Mark") else []
        return dict(marks=marks, started=sorted(x for x in ms.started_line_ids if not x.lstrip('-').isdigit()), executed=sorted(x for x in ms.executed_line_ids if not x.lstrip('-').isdigit()), failed=sorted(ms.failed_line_ids), log=list(d.log), inst=list(d.uod.command_instances), err=d.e.has_error_state())
    finally: d.e.cleanup()
seed0=int(sys.argv[1]); N=int(sys.argv[2]); done=0
for i in range(N):
    R=random.Random(seed0*100000+i)
    code=Gen(R, allow=("mark","uod","wait","block","watch","alarm","macro","thr")).program(R.randint(3,8))
    traj=[R.choice([0.0,0.0,0.0,2.0,4.0,6.0]) for _ in range(200)]
    inj=R.choice(["Mark: INJ","Mark: INJ\nMark: INJ2","Short\nMark: INJ","Wait: 0.3s\nMark: INJ"])
    at=R.randint(1,40)
    ref=run(code,traj); got=run(code,traj,inj,at)
    if ref is None or got is None or ref["err"]: continue
    done+=1
    c=got["marks"].count("INJ")
    if c!=1: V("C14.inj_count", code, (inj,at,c,got["marks"]))
    base=[m for m in got["marks"] if not m.startswith("INJ")]
    if collections.Counter(base)!=collections.Counter(ref["marks"]): V("C14.method_marks_differ", code, (inj,at,ref["marks"],got["marks"]))
    if (got["started"],got["executed"],got["failed"])!=(ref["started"],ref["executed"],ref["failed"]): V("C14.method_state_differs", code, (inj,at,ref["started"],got["started"],ref["executed"],got["executed"]))
    if got["inst"]: V("C14.instance_left", code, got["inst"])
print("cases", done, dict(viol))
for k,(c,dtl) in first.items(): print("----",k,str(dtl)[:500]); print(c)
