import itertools, sys
from drv import *
import drv; drv.Drv.raw=True
from openpectus.engine.engine_message_builder import EngineMessageBuilder
USER=["Start","Stop","Pause","Unpause","Hold","Unhold","Restart"]
ALPHA=USER+["tick","inj:Pause","inj:Hold","inj:Pause: 0.3s","inj:Hold: 0.3s"]
def expected(cs, restarting):
    if restarting: return "Restarting"
    if not cs.is_running: return "Stopped"
    if cs.is_paused: return "Paused"
    if cs.is_holding: return "Holding"
    return "Running"
def valid(cmd, st, paused, holding):
    active = st not in ("Stopped","Restarting")
    return {"Start": st=="Stopped","Stop":active,"Restart":active,"Pause":active and not paused,"Unpause":active and paused,"Hold":active and not holding,"Unhold":active and holding}[cmd]
L=int(sys.argv[1]); mism={}; n=0
for seq in itertools.product(ALPHA, repeat=L):
    n+=1
    d=Drv("Wait: 100s\n"); mb=EngineMessageBuilder(d.e,"",False)
    runids=set(); 
    try:
        for i,a in enumerate(seq+("tick",)*5):
            st=d.tag("System State"); cs=mb.create_control_state_msg().control_state
            if a in USER:
                ok=True
                try: d.e.execute_control_command_from_user(a)
                except ValueError: ok=False
                v=valid(a, st, cs.is_paused, cs.is_holding)
                if ok!=v: mism.setdefault(("accept",a,st,cs.is_paused,cs.is_holding,ok),seq)
            elif a.startswith("inj:"):
                if st not in ("Stopped",):
                    try: d.e.inject_code(a[4:])
                    except Exception as ex: mism.setdefault(("inject-raise",type(ex).__name__),seq)
            d.tick()
            st=d.tag("System State"); cs=mb.create_control_state_msg().control_state
            exp=expected(cs, st=="Restarting")
            if st!=exp: mism.setdefault(("agree",st,exp),seq)
            rid=d.tag("Run Id")
            if (st=="Stopped") != (rid in (None,"")): mism.setdefault(("runid",st,bool(rid)),seq)
    except Exception as ex:
        mism.setdefault(("EXC",type(ex).__name__,str(ex)[:80]),seq)
    d.e.cleanup()
print("sequences",n); 
for k,v in mism.items(): print(k, "first at", v)
