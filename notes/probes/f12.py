import random, sys, collections
from drv import *
import drv; drv.Drv.raw=True
from g import Gen
viol=collections.Counter(); first={}
def V(k, code, detail=""):
    viol[k]+=1; first.setdefault(k,(code,detail))
def snap(d):
    ms=d.e.method_manager.get_method_state()
    return (str(d.tag("System State")), d.tag("Method Status"), d.tag("Mark"), tuple(ms.started_line_ids), tuple(ms.executed_line_ids), tuple(ms.failed_line_ids), tuple(sorted(d.uod.command_instances)), tuple(len(x) for x in [d.log]), d.e._runstate_paused, d.e._runstate_holding,
            tuple((i.name, str(i.state), i.cancelled, i.forced) for i in d.e.tracking.get_runlog().items))
seed0=int(sys.argv[1]); N=int(sys.argv[2]); stats=collections.Counter()
for i in range(N):
    R=random.Random(seed0*100000+i)
    code=Gen(R).program(R.randint(3,9))
    d=Drv(code); traj=[R.choice([0.0,0.0,0.0,2.0,4.0,6.0]) for _ in range(200)]
    try:
        d.start()
        for k in range(80):
            d.uod.hwl.mem["FT01"]=traj[k]
            if R.random()<0.15:
                try: items=d.e.tracking.get_runlog().items
                except Exception: items=[]
                if items:
                    it=R.choice(items); kind=R.choice(["cancel","force"])
                    offered = it.cancellable if kind=="cancel" else it.forcible
                    before=snap(d)
                    ok=True
                    try: (d.e.cancel_instruction if kind=="cancel" else d.e.force_instruction)(it.id)
                    except Exception as ex: ok=False
                    after=snap(d)
                    stats[(kind, "offered" if offered else "not-offered", "accepted" if ok else "rejected")]+=1
                    if not offered and ok and before!=after: V(f"C12.{kind}.not_offered_but_accepted_and_changed", code, (k,it.name,str(it.state)))
                    if not offered and ok and before==after: stats[(kind,"not-offered accepted silently no change")]+=1
                    if not ok and before!=after: V(f"C12.{kind}.rejected_but_changed", code, (k,it.name,str(it.state),[ (a,b) for a,b in zip(before,after) if a!=b][:3]))
                    if offered and not ok: V(f"C12.{kind}.offered_but_rejected", code, (k,it.name,str(it.state)))
            d.tick()
    except Exception as ex:
        V("EXC:"+type(ex).__name__, code, str(ex)[:300])
    finally: d.e.cleanup()
print("runs",N); 
for k,v in sorted(stats.items(), key=str): print("  ",k,v)
for k,v in viol.items(): print(k,v)
for k,(c,dtl) in first.items(): print("----",k,dtl); print(c)
