from drv import *
d=Drv("01 Mark: A\n02 Mark: B\n03 Wait: 1s\n04 Mark: C\n05 ")
d.start(); d.tick(6)
print("Mark tag before:", d.tag("Mark"))
m=Mdl.Method.from_numbered_pcode("01 Mark: A\n02 Mark: B\n03 Wait: 1s\n04 Mark: C\n05 Mark: D\n06 ")
print(d.e.set_method(m))
st = d.e.interpreter._program.extract_tree_state()
print({k:(v['started'],v['completed']) for k,v in st.items()})
for i in range(12):
    d.tick(1); print(i, d.tag("Mark"))
