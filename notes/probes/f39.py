import logging; logging.disable(logging.CRITICAL)
import csv, os, tempfile, shutil
import openpectus.engine.archiver as A
from openpectus.lang.exec.tags import Tag, TagCollection
from openpectus.lang.exec.tags_impl import MarkTag
from openpectus.lang.exec.runlog import RunLog
d=tempfile.mkdtemp(prefix="opvp"); A.__file__=os.path.join(d,"archiver.py")
tags=TagCollection([Tag("A, B", value=1.5, unit="L/h"), Tag("S", value='x,"y"\\z'), Tag("N", value=None), MarkTag(), Tag("I", value=3)])
ar=A.ArchiverTag(lambda: RunLog(), lambda: tags, 0.0); tags.add(ar)
print("data path", ar.data_path)
ar.on_start("R")
expected=[]
for txt in ["plain", "a, b", 'q"uote', "back\\slash", "semi; colon", "cr\rlf", "tab\t", "é中", "a,b,c,,"]:
    tags["Mark"].set_value(txt, 0.0)
    row=[t.name for t in tags]  # placeholder
    vals=[]
    for t in tags:
        pass
    # record what archive() will return, non-destructively for MarkTag: value before reset
    exp=[(t.value if not isinstance(t,MarkTag) else t.value) for t in tags]
    ar.last_save_tick=0; ar.on_tick(0,0)
    expected.append(txt)
fp=ar.file_path
with open(fp, newline='', encoding='utf-8') as f:
    rows=list(csv.reader(f, delimiter=A.delimiter, quoting=A.quoting, escapechar=A.escapechar))
print("header", rows[0])
for r,txt in zip(rows[1:], expected):
    print(len(r), len(rows[0]), repr(r[1:]), "mark ok:", r[4]==txt)
print(open(fp,newline='').read()[:400].encode())
shutil.rmtree(d)
