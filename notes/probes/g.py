import random
class Gen:
    def __init__(s, rnd, allow=("mark","uod","wait","block","watch","alarm","macro","thr","pausehold","sim")):
        s.r=rnd; s.allow=set(allow); s.n=0; s.macros=[]; s.lines=[]
    def lab(s): s.n+=1; return f"m{s.n}"
    def body(s, ind, depth, in_block, maxlen):
        k=s.r.randint(1,maxlen); 
        for i in range(k):
            s.stmt(ind, depth, in_block)
    def emit(s, ind, txt): s.lines.append(" "*ind+txt)
    def stmt(s, ind, depth, in_block):
        r=s.r; choices=["mark","mark","uod","wait"]
        if depth<3: choices+=["block","watch","alarm","macro"]
        choices+=["thr","pausehold","sim","callmacro","blank"]
        c=r.choice([c for c in choices if c in s.allow or c in("callmacro","blank")])
        if c=="mark": s.emit(ind, f"Mark: {s.lab()}")
        elif c=="uod": s.emit(ind, r.choice(["Short","Long","Long2","Short"]))
        elif c=="wait": s.emit(ind, f"Wait: {r.choice(['0.1','0.2','0.5','0'])}s")
        elif c=="thr": s.emit(ind, f"{r.choice(['0.2','0.5','1','0','1.5'])} Mark: {s.lab()}")
        elif c=="pausehold": s.emit(ind, r.choice(["Pause: 0.3s","Hold: 0.3s","Hold: 0.2s"]))
        elif c=="sim": s.emit(ind, r.choice([f"Simulate: X = {r.randint(0,5)}","Simulate off: X"]))
        elif c=="blank": s.emit(ind if r.random()<0.5 else 0, r.choice(["","# c"]))
        elif c=="block":
            s.emit(ind, f"Block: b{s.lab()}"); s.body(ind+4, depth+1, True, 4)
            if r.random()<0.85: s.emit(ind+4, r.choice(["End block","End block","End blocks"]))
            else:
                s.emit(ind+4, f"Watch: FT01 > {r.randint(1,5)} L/h"); s.emit(ind+8, "End block")
        elif c=="watch":
            s.emit(ind, r.choice([f"Watch: FT01 > {r.randint(1,5)} L/h", f"Watch: X = {r.randint(0,5)}", "Watch: Run Counter >= 0"])); s.body(ind+4, depth+1, in_block, 3)
        elif c=="alarm":
            s.emit(ind, r.choice([f"Alarm: FT01 > {r.randint(3,5)} L/h", f"Alarm: X = {r.randint(1,5)}"])); s.body(ind+4, depth+1, in_block, 2)
        elif c=="macro":
            name=f"M{len(s.macros)}"; s.emit(ind, f"Macro: {name}"); 
            s.body(ind+4, depth+1, in_block, 3); s.macros.append(name)
        elif c=="callmacro":
            if s.macros: s.emit(ind, f"Call macro: {r.choice(s.macros)}")
            else: s.emit(ind, f"Mark: {s.lab()}")
    def program(s, maxlen=8):
        s.body(0,0,False,maxlen); return "\n".join(s.lines)+"\n"
if __name__=="__main__":
    import sys
    print(Gen(random.Random(int(sys.argv[1]))).program())
