import itertools, sys
from drv import *
import drv; drv.Drv.raw=True
from openpectus.engine.engine_message_builder import EngineMessageBuilder
USER=["Start","Stop","Pause","Unpause","Hold","Unhold","Restart"]
ALPHA=USER+["tick","inj:Pause: 0.3s","inj:Hold: 0.3s","inj:Pause"]
L=int(sys.argv[1]); mism={}; n=0
def post(cmd, paused, holding):
    if cmd=="Start": return "Running"
    if cmd=="Pause": return "Paused"
    if cmd=="Unpause": return "Holding" if holding else "Running"
    if cmd=="Hold": return "Paused" if paused else "Holding"
    if cmd=="Unhold": return "Paused" if paused else "Running"
    if cmd=="Restart": return "Restarting"
    return None
for seq in itertools.product(ALPHA, repeat=L):
    n+=1
    d=Drv("Wait: 100s\n"); mb=EngineMessageBuilder(d.e,"",False)
    try:
        hist=[]
        for i,a in enumerate(seq+("tick",)*6):
            st=d.tag("System State"); cs=mb.create_control_state_msg().control_state
            acc=None
            if a in USER:
                try: d.e.execute_control_command_from_user(a); acc=a
                except ValueError: pass
            elif a.startswith("inj:") and st!="Stopped":
                d.e.inject_code(a[4:])
            d.tick()
            st2=d.tag("System State"); hist.append((a,st2))
            if acc:
                exp=post(acc, cs.is_paused, cs.is_holding)
                if exp and st2!=exp: mism.setdefault(("post",acc,"from",st,cs.is_paused,cs.is_holding,"got",st2,"exp",exp),(seq,hist[:]))
        # after settle: state must be stable & consistent; stop must work
        if d.tag("System State")!="Stopped":
            d.e.execute_control_command_from_user("Stop"); d.tick(3)
            if d.tag("System State")!="Stopped": mism.setdefault(("stop-ineffective",d.tag("System State")),(seq,hist))
    except Exception as ex:
        mism.setdefault(("EXC",type(ex).__name__,str(ex)[:80]),(seq,hist))
    d.e.cleanup()
print("sequences",n)
for k,v in mism.items(): print(k, "\n    first at", v)
