from drv import *
import sys
def run(code, n=30):
    d=Drv(code); d.start()
    try:
        d.tick(n)
    except BaseException as e:
        print("TICK RAISED", type(e).__name__)
    print(repr(code)); print("   marks tag:", d.tag("Mark"), "| state", d.tag("System State"), d.tag("Method Status"), "| err:", str(d.e.get_error_state_exception())[:100])
run("Macro: A\n    Mark: a1\n    Call macro: A\nCall macro: A\nMark: end\n")
run("Macro: B\n    Mark: b\nMacro: A\n    Mark: a1\n    Call macro: B\n    Call macro: A\nCall macro: A\nMark: end\n")
run("Macro: A\n    Mark: a1\n    Block: X\n        Call macro: A\n        End block\nCall macro: A\nMark: end\n")
run("Macro: A\n    Mark: a1\n    Call macro: B\nMacro: B\n    Mark: b1\n    Call macro: A\nCall macro: A\nMark: end\n")
run("Macro: A\n    Mark: old\nMacro: A\n    Mark: new\nCall macro: A\nCall macro: A\nMark: end\n")
