import sys, threading, time as _time
from drv import *
import drv; drv.Drv.raw=True
import openpectus.engine.engine as E, openpectus.engine.method_manager as MM, openpectus.engine.command_manager as CM, openpectus.lang.exec.pinterpreter as PI
mon=sys.monitoring; TID=mon.DEBUGGER_ID; mon.use_tool_id(TID,"opv")
targets=set()
for cls in (E.Engine, MM.MethodManager, CM.CommandManager, PI.PInterpreter):
    for n,f in vars(cls).items():
        if callable(f) and hasattr(f,"__code__"): targets.add(f.__code__)

class Sched:
    """ exactly one of two threads runs; switches only at yield points. plan: dict thread-> list of yield indexes at which to switch away """
    def __init__(s): s.cv=threading.Condition(); s.turn=None; s.alive=set(); s.count={}; s.switch_at={}; s.trace=[]; s.blocked=set()
    def start(s, name): 
        with s.cv:
            s.alive.add(name); s.count[name]=0
            while s.turn!=name: s.cv.wait()
    def finish(s, name):
        with s.cv:
            s.alive.discard(name); s._give_other(name); s.cv.notify_all()
    def _give_other(s, name):
        others=[t for t in s.alive if t!=name and t not in s.blocked]
        if others: s.turn=others[0]
        elif name in s.alive: s.turn=name
        else: s.turn=None
    def yield_point(s, name, label):
        with s.cv:
            if name not in s.alive: return
            s.count[name]+=1; s.trace.append((name,s.count[name],label))
            if s.count[name] in s.switch_at.get(name,()):
                s._give_other(name); s.cv.notify_all()
                while s.turn!=name: s.cv.wait()
    def block(s, name):   # called when lock unavailable
        with s.cv:
            s.blocked.add(name); s._give_other(name); s.cv.notify_all()
            while s.turn!=name: s.cv.wait()
    def unblock_all(s):
        with s.cv: s.blocked.clear()
class SLock:
    def __init__(s, sched): s.sched=sched; s.owner=None
    def __enter__(s):
        me=threading.current_thread().name
        while s.owner is not None:
            s.sched.block(me)
        s.owner=me
    def __exit__(s,*a):
        s.owner=None; s.sched.unblock_all()

def run_case(switch_tick_at, req, req_switch=()):
    d=Drv("Mark: A\nLong\nWait: 0.5s\nMark: B\nMark: C\n"); d.start(); d.tick(3)
    sched=Sched(); d.e._lock=SLock(sched)
    def cb(code, off):
        if code in targets:
            sched.yield_point(threading.current_thread().name, code.co_qualname)
        else: return mon.DISABLE
    mon.register_callback(TID, mon.events.PY_START, cb)
    err=[]
    def t1():
        sched.start("T1")
        try: d.tick(1)
        except BaseException as ex: err.append(("T1",repr(ex)))
        finally: sched.finish("T1")
    def t2():
        sched.start("T2")
        try: req(d)
        except BaseException as ex: err.append(("T2",repr(ex)))
        finally: sched.finish("T2")
    sched.switch_at={"T1":{switch_tick_at}, "T2":set(req_switch)}
    a=threading.Thread(target=t1,name="T1"); b=threading.Thread(target=t2,name="T2")
    mon.set_events(TID, mon.events.PY_START)
    a.start(); b.start()
    with sched.cv: 
        while sched.alive!={"T1","T2"}: sched.cv.wait(0.01)
        sched.turn="T1"; sched.cv.notify_all()
    a.join(5); b.join(5)
    mon.set_events(TID,0)
    hung=a.is_alive() or b.is_alive()
    n1=sched.count.get("T1",0)
    if not hung: d.tick(12)
    return dict(hung=hung, err=err, n1=n1, mark=d.tag("Mark"), log=[(x[0],x[3]) if x[0]=="exec" else x[0] for x in d.log], inst=list(d.uod.command_instances), state=d.tag("System State"), ms=d.tag("Method Status"))
inject=lambda d: d.e.inject_code("Mark: I")
base=run_case(10**9, inject)  # tick fully first, then request
print("serial tick;req:", base)
w=_time.perf_counter(); outs={}
for p in range(1, base["n1"]+1):
    r=run_case(p, inject)
    key=(r["hung"], tuple(map(tuple,r["err"])), r["mark"], tuple(r["log"]), r["state"], r["ms"])
    outs.setdefault(key, []).append(p)
print("positions", base["n1"], "wall", round(_time.perf_counter()-w,2))
for k,v in outs.items(): print(v, k)
print("==== merge request")
def merge(d):
    d.e.set_method(Mdl.Method.from_pcode("Mark: A\nLong\nWait: 0.5s\nMark: B\nMark: C\nMark: D\n"))
base=run_case(10**9, merge); print("serial tick;req:", {k:base[k] for k in ("mark","log","inst","err")})
d0=run_case(0, merge)
outs={}
for p in range(1, base["n1"]+1):
    r=run_case(p, merge)
    key=(r["hung"], tuple(map(tuple,r["err"])), r["mark"], tuple(r["log"]), tuple(r["inst"]), r["state"], r["ms"])
    outs.setdefault(key, []).append(p)
for k,v in outs.items(): print(v, k)
print("==== Stop request")
stop=lambda d: d.e.execute_control_command_from_user("Stop")
outs={}
base=run_case(10**9, stop)
for p in range(1, base["n1"]+1):
    r=run_case(p, stop)
    key=(r["hung"], tuple(map(tuple,r["err"])), r["mark"], tuple(r["log"]), tuple(r["inst"]), r["state"], r["ms"])
    outs.setdefault(key, []).append(p)
for k,v in outs.items(): print(v, k)
