from drv import *
def rl(d):
    return [(i.name, str(i.state), "C" if i.cancellable else "-", "F" if i.forcible else "-", i.id[:4]) for i in d.e.tracking.get_runlog().items]
print("=== cancel completed untimed Pause item")
d=Drv("Mark: A\nPause\nMark: B\n"); d.start(); d.tick(5)
print(d.tag("System State"), rl(d))
it=[i for i in d.e.tracking.get_runlog().items if i.name=="Pause"][0]
try:
    d.e.cancel_instruction(it.id); print("cancel accepted!")
except Exception as e: print("cancel rejected:", type(e).__name__, e)
d.tick(2); print(d.tag("System State"), d.tag("Mark"))
print("=== long-running output command during pause")
log=[]
d=Drv("Mark: A\nWait: 5s\n")
def dang(cmd, **kw):
    cmd.context.tags["Danger"].set_value(True, 0)
    if cmd.get_iteration_count()>=30: cmd.set_complete()
from openpectus.lang.exec.uod import UodCommandBuilder
d.uod.command_factories["Spin"]=UodCommandBuilder().with_name("Spin").with_exec_fn(dang)
d.e.set_method(Mdl.Method.from_pcode("Spin\nWait: 5s\n"))
d.start(); d.tick(4)
d.e.execute_control_command_from_user("Pause"); d.tick(1)
w0=len(d.uod.hwl.writes); d.tick(3)
print(d.tag("System State"), "hw writes of Danger during pause:", [v for (n,v) in d.uod.hwl.writes[w0:] if n=="Danger"])
print("=== timed pause + user unpause + user pause")
d=Drv("Mark: A\nPause: 1s\nMark: B\n"); d.start(); d.tick(4); print(d.tag("System State"))
d.e.execute_control_command_from_user("Unpause"); d.tick(1); print("after unpause", d.tag("System State"))
try:
    d.e.execute_control_command_from_user("Pause"); print("pause accepted")
except Exception as e: print("pause rejected", e)
d.tick(1); print("after pause+tick", d.tag("System State"))
d.tick(12); print("later", d.tag("System State"), d.tag("Mark"))
print("=== hold then pause then unhold/unpause states")
d=Drv("Wait: 9s\n"); d.start(); d.tick(2)
for c in ["Hold","Pause","Unhold","Unpause","Restart"]:
    d.e.execute_control_command_from_user(c); d.tick(1); print(c, "->", d.tag("System State"), d.e._runstate_started, d.e._runstate_paused, d.e._runstate_holding, d.tag("Run Id") and d.tag("Run Id")[:4])
d.tick(1); print(d.tag("System State"), d.tag("Run Id") and d.tag("Run Id")[:4]); d.tick(1); print(d.tag("System State"), d.tag("Run Id") and d.tag("Run Id")[:4])
