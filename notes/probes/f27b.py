import logging; logging.disable(logging.CRITICAL)
import asyncio, selectors, random, sys, time as _time
from drv import *
import drv; drv.Drv.raw=True
from openpectus.engine.engine_message_builder import EngineMessageBuilder
from openpectus.engine.engine_runner import EngineRunner
from openpectus.protocol.engine_dispatcher import EngineDispatcher
from openpectus.protocol.exceptions import ProtocolNetworkException
import openpectus.protocol.engine_messages as EM, openpectus.protocol.messages as M

class VSel(selectors.DefaultSelector):
    def __init__(s): super().__init__(); s.loop=None
    def select(s, timeout=None):
        ev=super().select(0)
        if ev or not timeout or timeout<=0: return ev
        s.loop._vt += timeout
        return []
class VLoop(asyncio.SelectorEventLoop):
    def __init__(s):
        sel=VSel(); super().__init__(sel); sel.loop=s; s._vt=0.0
    def time(s): return s._vt

class Disp(EngineDispatcher):
    def __init__(s, mb, rnd):
        super().__init__(mb, "x", False, dict(uod_name="u",uod_author_name="a",uod_author_email="e",uod_filename="f",location="l"))
        s.rnd=rnd; s.fail_n=0; s.fail_send=False; s.fail_connect=False; s.log=[]; s.connected=False
    async def connect_async(s):
        await asyncio.sleep(0.01)
        if s.fail_connect: raise ProtocolNetworkException("c")
        s._engine_id="E"; s.connected=True
    async def disconnect_async(s): s.connected=False
    async def send_async(s, message):
        message.engine_id="E"; s.assign_sequence_number(message)
        # fair ordered channel: the message is on the wire (and its fate decided) at call time; only the reply is delayed
        failing = s.fail_send or not s.connected or (s.fail_n>0)
        if s.fail_n>0: s.fail_n-=1
        s.log.append(("fail" if failing else "ok", id(message), message.sequence_number, type(message).__name__, getattr(message,"run_id",None)))
        await asyncio.sleep(s.rnd.choice([0.0,0.001,0.02,0.05]))
        if failing: raise ProtocolNetworkException("s")
        return M.SuccessMessage()

async def main(seed):
    rnd=random.Random(seed)
    loop=asyncio.get_running_loop()
    d=Drv("Mark: A\nWait: 100s\n")
    mb=EngineMessageBuilder(d.e,"",False); disp=Disp(mb,rnd)
    runner=EngineRunner(disp, mb, d.e.emitter, loop)
    states=[]
    async def sc(a,b):
        states.append((round(loop.time(),2),a,b))
        if b=='CatchingUp' and not hasattr(disp,'once') and MODE=='catchfail': disp.once=1; disp.fail_n=3
    runner.state_changing_callback=sc
    produced=[]
    orig=runner._post_async
    async def post(m): produced.append(m); return await orig(m)
    runner._post_async=post
    async def eng():
        await asyncio.sleep(1.0)
        d.e.execute_control_command_from_user("Start")
        for k in range(400):
            d.tick(); await asyncio.sleep(0.1)
            if k==30: disp.fail_send=True
            if k==120: disp.fail_send=False
            if k==150: d.e.execute_control_command_from_user("Stop")
    t=asyncio.create_task(eng())
    rt=asyncio.create_task(runner.run())
    await t
    await asyncio.sleep(30)
    await runner.shutdown(); await rt
    print("virtual time", round(loop.time(),1), "states", [(t,b) for t,a,b in states])
    ok=[x for x in disp.log if x[0]=="ok"]; fail=[x for x in disp.log if x[0]=="fail"]
    print("produced", len(produced), "ok", len(ok), "fail", len(fail), "buffer", len(runner._message_buffer))
    okids={}
    for x in ok: okids[x[1]]=okids.get(x[1],0)+1
    print("delivered twice:", sum(1 for v in okids.values() if v>1), "never delivered:", sum(1 for m in produced if id(m) not in okids))
    # order: RunStopped vs buffered run data
    idx=[i for i,x in enumerate(ok) if x[3]=="RunStoppedMsg"]
    if idx:
        rid=ok[idx[0]][4]; later=[x for x in ok[idx[0]+1:] if x[4]==rid]
        print("RunStopped at", idx[0], "of", len(ok), "later msgs of same run:", [(x[2],x[3]) for x in later][:10])
    seqs=[x[2] for x in ok]; print("seq unique among ok:", len(set(seqs))==len(seqs))
MODE=sys.argv[2] if len(sys.argv)>2 else 'plain'
loop=VLoop(); asyncio.set_event_loop(loop)
w0=_time.perf_counter()
loop.run_until_complete(main(int(sys.argv[1]) if len(sys.argv)>1 else 0))
print("wall", round(_time.perf_counter()-w0,2))
