from drv import *
d=Drv("01 Mark: A\n02 Wait: 3s\n03 Mark: B\n04 ")
d.start(); d.tick(3)
d.e.inject_code("Long\nMark: inj"); 
for i in range(12):
    d.tick(1); print(i, d.tag("Mark"), [(x[0],x[3]) if x[0]=="exec" else x[0] for x in d.log], list(d.uod.command_instances), d.e.method_manager.get_method_state().started_line_ids)
