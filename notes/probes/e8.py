from drv import *
d=Drv("Danger: on\nWait: 0.5s\nBogus\n")
hw=d.uod.hwl
print("writes before start", hw.writes, hw.mem)
d.start(); d.tick(3)
print("Danger tag", d.tag("Danger"), hw.mem)
d.e.execute_control_command_from_user("Pause"); d.tick(2)
print("paused: Danger", d.tag("Danger"), hw.mem, "prev", d.e._prev_state and d.e._prev_state.get("Danger").value)
d.e.execute_control_command_from_user("Stop"); d.tick(3)
print("stopped:", d.tag("System State"), d.tag("Danger"), hw.mem, "prev_state left:", d.e._prev_state is not None)
# run 2 : method sets Danger off?, then error-pause, then unpause
d.e.set_method(Mdl.Method.from_pcode("Danger: off\nBogus\n"))
d.e.execute_control_command_from_user("Start"); d.tick(6)
print("run2:", d.tag("System State"), d.tag("Method Status"), "Danger", d.tag("Danger"), hw.mem, "paused flag", d.e._runstate_paused)
d.e.execute_control_command_from_user("Unpause"); d.tick(2)
print("after unpause:", d.tag("System State"), "Danger", d.tag("Danger"), hw.mem)
