import time as _t
t0=_t.perf_counter()
from drv import *
t1=_t.perf_counter(); print("import", round(t1-t0,2))
import openpectus.lang.model.ast as p
ev=[]
def mk(name):
    priv="_"+name
    def g(self): return self.__dict__.get(priv, False)
    def s(self,v):
        old=self.__dict__.get(priv, False)
        self.__dict__[priv]=v
        if old!=v: ev.append((name, self.id, v))
    return property(g,s)
p.Node.started=mk("started"); p.Node.completed=mk("completed")
code="Block: A\n    Mark: x\n    Watch: FT01 > 3 L/h\n        Mark: w\n    Wait: 0.5s\n    Long\n    End block\nMacro: M\n    Mark: m\nCall macro: M\nCall macro: M\nMark: y\n"
N=200
t2=_t.perf_counter()
for i in range(N):
    d=Drv(code); d.start(); d.tick(40); d.e.cleanup()
t3=_t.perf_counter(); print("per run (41 ticks)", (t3-t2)/N*1000, "ms", "events", len(ev)//N)
print(d.tag("Mark"))
print([e for e in ev[-60:]])
