import logging; logging.disable(logging.CRITICAL)
from openpectus.lang.model.parser import PcodeParser, ParserMethod, create_method_parser
import openpectus.lang.model.ast as p
def show(pcode):
    m=ParserMethod.from_pcode(pcode); prog=create_method_parser(m,["Cmd"]).parse_method(m)
    print(repr(pcode))
    for n in prog.get_all_nodes()[1:]:
        print("   ", n.id, type(n).__name__, "indent", n.position.character, "parent", n.parent.id if n.parent else None, "ERR" if n.indent_error else "")
show("Block: A\nMark: B")
show("Block: A\n    Mark: B\nMark: C")
show("Block: A\n    Mark: B\n        Mark: C")
show("Mark: A\n    Mark: B")
show("Block: A\n    Watch: X > 1\n        Mark: B\n    Mark: C\nMark: D")
show("Block: A\n    Watch: X > 1\n        Mark: B\nMark: D")
show("Block: A\n\n    Mark: B\n        \nMark: D")
show("Watch: X > 1\nWatch: Y > 1\n    Mark: B")
show("Block: A\n  Mark: B\n    Mark: C")
show("    Mark: A\nMark: B")
show("Block: A\n    # c\n    Mark: B\n# d\n    Mark: C")
