import sys, threading
from drv import *
import openpectus.engine.engine as E, openpectus.engine.method_manager as MM, openpectus.engine.command_manager as CM, openpectus.lang.exec.pinterpreter as PI
mon=sys.monitoring; TID=mon.DEBUGGER_ID; mon.use_tool_id(TID,"opv")
targets=set()
for cls in (E.Engine, MM.MethodManager, CM.CommandManager, PI.PInterpreter):
    for n,f in vars(cls).items():
        if callable(f) and hasattr(f,"__code__"): targets.add(f.__code__)
seen=[]
def on_start(code, off):
    if code in targets:
        seen.append((threading.current_thread().name, code.co_qualname))
    else:
        return mon.DISABLE
mon.register_callback(TID, mon.events.PY_START, on_start)
d=Drv("Mark: A\nLong\nWait: 1s\nMark: B\n"); d.start(); d.tick(2)
mon.set_events(TID, mon.events.PY_START)
d.tick(1)
n1=len(seen)
t=threading.Thread(target=lambda: d.e.inject_code("Mark: I"), name="T2"); t.start(); t.join()
mon.set_events(TID, 0)
print("yield points in one tick:", n1); print(seen[:n1]); print("inject:", seen[n1:])
