import logging; logging.disable(logging.CRITICAL)
from openpectus.lang.exec.analyzer import SemanticCheckAnalyzer
from openpectus.lang.exec.tags import TagValue, TagValueCollection
from openpectus.lang.exec.commands import Command, CommandCollection
from openpectus.lang.model.parser import ParserMethod, create_method_parser
tags=TagValueCollection([TagValue("Temperature",unit="degC"), TagValue("Run Counter")])
cmds=CommandCollection([Command("Watch"),Command("Mark"),Command("Simulate"),Command("Simulate off")])
for code in ["Watch: Temperatur > 3 degC\n    Mark: a", "Watch: Zzzzzzqqq > 3 degC\n    Mark: a", "Simulate: Qwertyuiop = 3", "Simulate off: Qwertyuiop", "Watch: ab > 3\n    Mark: a", "Frobnicate: 3"]:
    m=ParserMethod.from_pcode(code); prog=create_method_parser(m,[]).parse_method(m)
    a=SemanticCheckAnalyzer(tags,cmds)
    try:
        a.analyze(prog); print(repr(code), "->", [(i.id, i.node.id if i.node else None) for i in a.errors])
    except Exception as e: print(repr(code), "EXC", type(e).__name__, e)
