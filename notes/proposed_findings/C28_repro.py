"""Minimal history of C28.run_stopped_of_ended_run_closes_active_run on the real aggregator code.

    cd /verif && /venv/bin/python notes/proposed_findings/C28_repro.py         # OPV_REPO=<copy> to try a fix

The engine loses its connection right after run R1 started, stops R1 and starts R2 while disconnected, re-registers
and flushes its buffer. EngineRunner._send_buffered_batch posts the buffered messages with asyncio.gather, so
RunStartedMsg(R2) may be handled before RunStoppedMsg(R1)."""
import asyncio
import logging
import os
import sys

sys.path.insert(0, os.environ.get("OPV_REPO", "/repo"))
sys.path.insert(0, "/verif")
logging.disable(logging.CRITICAL)


async def main():
    from opv.rigs.aggregator_rig import AggregatorRig, reg_msg, uod_info_msg, tags_msg, run_started_msg, run_stopped_msg
    rig = AggregatorRig()
    try:
        async def up():
            eid = await rig.register(reg_msg("E1", "uod"))
            await rig.connect(eid)
            await rig.send(uod_info_msg(eid, ["T1"], 0.5))
            return eid

        def active():
            ed = rig.engine_data(eid)
            return ed.run_data.run_id if ed is not None and ed.has_run() else None

        eid = await up()
        await rig.send(run_started_msg(eid, "R1", 1000.0))
        await rig.send(tags_msg(eid, "R1", [("T1", 1001.0, 1.0)]))
        await rig.disconnect(eid)
        eid = await up()
        print("after re-registration the active run is", active())                      # R1 (continued)
        await rig.send(run_started_msg(eid, "R2", 1010.0))                               # buffered, overtook stop R1
        print("after RunStartedMsg(R2): active", active(), "RecentRuns", rig.run_row_counts()[1])   # R2, {R1: 1}
        await rig.send(run_stopped_msg(eid, "R1"))                                       # buffered, late
        print("after late RunStoppedMsg(R1): active", active(), "RecentRuns", rig.run_row_counts()[1])
        await rig.send(tags_msg(eid, "R2", [("T1", 1020.0, 2.0)]))                       # live data of R2
        await rig.send(tags_msg(eid, "R2", [("T1", 1030.0, 3.0)]))
        await rig.send(run_stopped_msg(eid, "R2"))
        rows = [(x["run_id"], x["tick_time"], x["value"]) for x in rig.plot_values()]
        print("plot values:", rows)
        ok = any(r == "R2" and t == 1030.0 for r, t, _ in rows)
        print("R2 kept running until its own run-stopped and its data was recorded:", ok)
        return 0 if ok else 1
    finally:
        rig.close()

sys.exit(asyncio.run(main()))
