"""Minimal reproductions of the three proposed C30 findings on the real aggregator (run: cd /verif &&
/venv/bin/python notes/proposed_findings/C30_repro.py).  Uses the aggregator rig; nothing is written outside a scratch dir."""
import asyncio, logging, os, sys
sys.path.insert(0, os.environ.get("OPV_REPO", "/repo")); sys.path.insert(0, "/verif")
logging.disable(logging.CRITICAL)
from opv.rigs.aggregator_rig import AggregatorRig, reg_msg, uod_info_msg, tags_msg, run_started_msg, run_stopped_msg

HISTORIES = {
    "C30.duplicate_run_started_while_run_active_creates_plot_log": ["start R1", "start R1", "tags R1", "stop R1"],
    "C30.run_started_after_run_ended_reopens_run": ["start R1", "tags R1", "stop R1", "start R1", "stop R1"],
    "C30.run_stopped_before_run_started_leaves_run_open": ["stop R1", "start R1"],
}

async def main():
    rig = AggregatorRig()
    try:
        for key, hist in HISTORIES.items():
            rig.wipe()
            eid = await rig.register(reg_msg()); await rig.connect(eid); await rig.send(uod_info_msg(eid, ["T1"], 0.5))
            for k, step in enumerate(hist):
                kind, r = step.split()
                msg = {"start": lambda: run_started_msg(eid, r, 1000.0), "stop": lambda: run_stopped_msg(eid, r),
                       "tags": lambda: tags_msg(eid, r, [("T1", 1001.0 + k, 1.5)])}[kind]()
                await rig.send(msg)
            ed = rig.engine_data(eid)
            print(f"{key}\n   history {hist}\n   PlotLogs rows for R1: {len(rig.plot_logs('R1'))}  RecentRuns rows for R1: "
                  f"{len(rig.recent_runs('R1'))}  run still open in aggregator: {ed.has_run()}")
    finally:
        rig.close()
asyncio.run(main())
