"""
Demo for property C07 - "Method clocks advance only while running".

Drives a real Engine tick by tick (synthetic tick times, non-uniform increments) through a few
control-command schedules and checks, at every tick, using only the public tags:

  * Process Time and Run Time are 0 right after the Start command has executed
  * Process Time and Run Time never decrease while the run is going
  * Process Time only advances over a tick if System State was Running when the tick began
  * Run Time only advances over a tick if System State was neither Stopped nor Restarting
  * Block Time and Scope Time do not advance over a tick that began in System State Paused

Run:  cd /tmp/seed-C07 && /venv/bin/python demo_c07.py
Exit code 0 / "PASS" if all checks hold, exit code 1 / "FAIL" otherwise.
"""
import logging
import os
import sys

logging.disable(logging.CRITICAL)

from openpectus.engine.engine import Engine, EngineTiming  # noqa: E402
from openpectus.engine.models import SystemStateEnum  # noqa: E402
from openpectus.lang.exec.clock import WallClock  # noqa: E402
from openpectus.lang.exec.tags import SystemTagName  # noqa: E402
from openpectus.lang.exec.timer import NullTimer  # noqa: E402
from openpectus.lang.exec.uod import UodBuilder  # noqa: E402
import openpectus.protocol.models as Mdl  # noqa: E402

METHOD = """\
Block: A
    Wait: 1000s
    End block
"""

# a non-uniform tick schedule, repeated cyclically
INCREMENTS = [0.1, 0.25, 1.0, 0.1, 3.5, 0.1, 0.7, 12.0, 0.1, 0.1, 2.0]

# tick index -> control command issued just before that tick
SCHEDULES: dict[str, dict[int, str]] = {
    "start/pause/unpause/stop": {
        0: "Start", 6: "Pause", 12: "Unpause", 18: "Stop", 24: "Start", 30: "Pause", 36: "Unpause",
    },
    "start/hold/unhold (process+run time)": {
        0: "Start", 5: "Hold", 11: "Unhold", 16: "Pause", 19: "Hold", 23: "Unpause", 27: "Unhold",
    },
    "start/restart": {
        0: "Start", 6: "Restart", 20: "Pause", 25: "Restart",
    },
    "start/pause/restart/stop/start": {
        0: "Start", 4: "Pause", 9: "Unpause", 13: "Restart", 22: "Stop", 27: "Start", 33: "Restart",
    },
}
TICKS = 42


def create_engine() -> Engine:
    uod = (UodBuilder()
           .with_instrument("DemoUod")
           .with_author("Demo", "demo@openpectus.org")
           .with_filename(__file__)
           .with_hardware_none()
           .with_location("nowhere")
           .build())
    uod.hwl.connect()
    engine = Engine(uod, EngineTiming(WallClock(), NullTimer(), 0.1, 1.0))
    engine.run(skip_timer_start=True)
    engine.set_method(Mdl.Method.from_pcode(METHOD))
    return engine


def snapshot(e: Engine) -> dict:
    return {
        "state": e.tags[SystemTagName.SYSTEM_STATE].get_value(),
        "process": e.tags[SystemTagName.PROCESS_TIME].as_float(),
        "run": e.tags[SystemTagName.RUN_TIME].as_float(),
        "block": float(e.tags[SystemTagName.BLOCK_TIME].get_value()),
        "scope": float(e.tags[SystemTagName.SCOPE_TIME].get_value()),
    }


def check_schedule(name: str, schedule: dict[int, str]) -> list[str]:
    violations: list[str] = []
    e = create_engine()
    try:
        tick_time = 1_000_000.0
        prev = snapshot(e)
        for i in range(TICKS):
            cmd = schedule.get(i)
            if cmd is not None:
                e.schedule_execution(cmd)
            inc = INCREMENTS[i % len(INCREMENTS)]
            tick_time += inc
            e.tick(tick_time, inc)
            cur = snapshot(e)
            where = f"[{name}] tick {i} (inc={inc}, cmd={cmd or '-'}, state {prev['state']} -> {cur['state']})"

            started_now = cmd == "Start" and cur["state"] == SystemStateEnum.Running
            if started_now:
                if cur["process"] != 0.0 or cur["run"] != 0.0:
                    violations.append(f"{where}: clocks not zero at run start: "
                                      f"Process Time={cur['process']}, Run Time={cur['run']}")
            else:
                d_process = cur["process"] - prev["process"]
                d_run = cur["run"] - prev["run"]
                if d_process < 0:
                    violations.append(f"{where}: Process Time decreased {prev['process']} -> {cur['process']}")
                if d_run < 0:
                    violations.append(f"{where}: Run Time decreased {prev['run']} -> {cur['run']}")
                if d_process > 0 and prev["state"] != SystemStateEnum.Running:
                    violations.append(
                        f"{where}: Process Time advanced {prev['process']} -> {cur['process']} "
                        f"over a tick that began in state {prev['state']}")
                if d_run > 0 and prev["state"] in (SystemStateEnum.Stopped, SystemStateEnum.Restarting):
                    violations.append(
                        f"{where}: Run Time advanced {prev['run']} -> {cur['run']} "
                        f"over a tick that began in state {prev['state']}")

            if prev["state"] == SystemStateEnum.Paused:
                if cur["block"] > prev["block"]:
                    violations.append(f"{where}: Block Time advanced while Paused {prev['block']} -> {cur['block']}")
                if cur["scope"] > prev["scope"]:
                    violations.append(f"{where}: Scope Time advanced while Paused {prev['scope']} -> {cur['scope']}")
            prev = cur
    finally:
        e.cleanup()
    return violations


def main() -> int:
    import openpectus
    print(f"openpectus loaded from {os.path.dirname(openpectus.__file__)}")
    all_violations: list[str] = []
    for name, schedule in SCHEDULES.items():
        violations = check_schedule(name, schedule)
        print(f"schedule '{name}': {'ok' if not violations else str(len(violations)) + ' violation(s)'}")
        all_violations.extend(violations)
    if all_violations:
        for v in all_violations:
            print("  " + v)
        print("FAIL")
        return 1
    print("PASS")
    return 0


if __name__ == "__main__":
    rc = main()
    sys.stdout.flush()
    os._exit(rc)  # skip interpreter-generator finalizer noise at shutdown
