"""
C09 demo: Unpause restores exactly the outputs from before the most recent Pause of the same run.

Drives the real Engine tick by tick with a small UOD that has two output registers with safe values.

Scenario A (control): one run, two pause/unpause cycles with outputs changed in between.
Scenario B: run 1 is paused and then stopped while paused (never unpaused);
            run 2 sets new output values, pauses and unpauses.
            Unpause in run 2 must restore the run-2 values, not what was captured in run 1.
Scenario C: same as B but run 1 ends with Restart instead of Stop + Start.

Exit 0 / PASS if all scenarios hold, exit 1 / FAIL otherwise.
"""
import logging
import sys
import time
from typing import Any

from openpectus.engine.engine import Engine
from openpectus.engine.hardware import HardwareLayerBase, Register, RegisterDirection
from openpectus.engine.models import SystemStateEnum, SystemTagName
from openpectus.lang.exec.tags import Tag, TagDirection
from openpectus.lang.exec.uod import UodBuilder

logging.disable(logging.CRITICAL)


class DemoHW(HardwareLayerBase):
    def __init__(self) -> None:
        super().__init__()
        self.register_values: dict[str, Any] = {}
        self._is_connected = False

    def read(self, r: Register) -> Any:
        return self.register_values.get(r.name)

    def write(self, value: Any, r: Register):
        self.register_values[r.name] = value

    def connect(self):
        self._is_connected = True

    def disconnect(self):
        self._is_connected = False


def create_engine() -> Engine:
    uod = (
        UodBuilder()
        .with_instrument("DemoUod")
        .with_author("Demo", "demo@example.org")
        .with_filename(__file__)
        .with_hardware(DemoHW())
        .with_location("Demo")
        .with_hardware_register("Valve", RegisterDirection.Write, path="valve", safe_value=0)
        .with_hardware_register("Pump", RegisterDirection.Write, path="pump", safe_value=0.0)
        .with_tag(Tag("Valve", value=0, unit=None, direction=TagDirection.Output))
        .with_tag(Tag("Pump", value=0.0, unit=None, direction=TagDirection.Output))
        .build()
    )
    uod.hwl.connect()
    return Engine(uod)


class Driver:
    def __init__(self) -> None:
        self.e = create_engine()
        self.t = time.time()

    def tick(self, n: int = 1):
        for _ in range(n):
            self.t += 0.1
            self.e.tick(self.t, 0.1)

    def user(self, name: str, ticks: int = 2):
        self.e.execute_control_command_from_user(name)
        self.tick(ticks)

    def set_outputs(self, valve: int, pump: float):
        self.e.uod.tags["Valve"].set_value(valve, self.t)
        self.e.uod.tags["Pump"].set_value(pump, self.t)
        self.tick()

    def state(self):
        return self.e._system_tags[SystemTagName.SYSTEM_STATE].get_value()

    def outputs(self) -> dict[str, Any]:
        """ Output values as seen in the tags and as written to hardware """
        tags = {n: self.e.uod.tags[n].get_value() for n in ("Valve", "Pump")}
        hw = dict(self.e.uod.hwl.register_values)  # type: ignore
        return {"tags": tags, "hw": {n: hw.get(n) for n in ("Valve", "Pump")}}

    def close(self):
        if self.state() != SystemStateEnum.Stopped:
            self.user("Stop", ticks=3)
        self.e.cleanup()


failures: list[str] = []


def expect_outputs(d: Driver, label: str, valve: int, pump: float):
    actual = d.outputs()
    expected = {"Valve": valve, "Pump": pump}
    ok = actual["tags"] == expected and actual["hw"] == expected
    print(f"  {'ok  ' if ok else 'BAD '} {label}: expected {expected}, tags={actual['tags']}, hw={actual['hw']}")
    if not ok:
        failures.append(label)


def expect_state(d: Driver, label: str, state: SystemStateEnum):
    if d.state() != state:
        print(f"  BAD  {label}: expected state {state}, got {d.state()}")
        failures.append(label + " (state)")


def scenario_a():
    print("Scenario A: one run, two pause/unpause cycles")
    d = Driver()
    try:
        d.user("Start")
        d.set_outputs(10, 1.5)
        d.user("Pause")
        expect_outputs(d, "A: paused #1 -> safe", 0, 0.0)
        d.user("Unpause")
        expect_outputs(d, "A: unpaused #1 -> pre-pause #1", 10, 1.5)
        d.set_outputs(20, 2.5)
        d.user("Pause")
        expect_outputs(d, "A: paused #2 -> safe", 0, 0.0)
        d.user("Unpause")
        expect_outputs(d, "A: unpaused #2 -> pre-pause #2", 20, 2.5)
    finally:
        d.close()


def scenario_b():
    print("Scenario B: run 1 paused then stopped; run 2 pause/unpause")
    d = Driver()
    try:
        d.user("Start")
        d.set_outputs(10, 1.5)
        d.user("Pause")
        expect_outputs(d, "B: run 1 paused -> safe", 0, 0.0)
        d.user("Stop", ticks=3)
        expect_state(d, "B: run 1 stopped", SystemStateEnum.Stopped)

        d.user("Start")
        expect_state(d, "B: run 2 running", SystemStateEnum.Running)
        d.set_outputs(20, 2.5)
        d.user("Pause")
        expect_state(d, "B: run 2 paused", SystemStateEnum.Paused)
        expect_outputs(d, "B: run 2 paused -> safe", 0, 0.0)
        d.user("Unpause")
        expect_state(d, "B: run 2 unpaused", SystemStateEnum.Running)
        expect_outputs(d, "B: run 2 unpaused -> run 2 pre-pause values", 20, 2.5)
    finally:
        d.close()


def scenario_c():
    print("Scenario C: run 1 paused then restarted; run 2 pause/unpause")
    d = Driver()
    try:
        d.user("Start")
        d.set_outputs(11, 1.25)
        d.user("Pause")
        expect_outputs(d, "C: run 1 paused -> safe", 0, 0.0)
        d.user("Restart", ticks=5)
        expect_state(d, "C: run 2 running", SystemStateEnum.Running)
        d.set_outputs(21, 2.25)
        d.user("Pause")
        expect_outputs(d, "C: run 2 paused -> safe", 0, 0.0)
        d.user("Unpause")
        expect_outputs(d, "C: run 2 unpaused -> run 2 pre-pause values", 21, 2.25)
    finally:
        d.close()


if __name__ == "__main__":
    scenario_a()
    scenario_b()
    scenario_c()
    if failures:
        print("FAIL: " + "; ".join(failures))
        sys.exit(1)
    print("PASS")
    sys.exit(0)
