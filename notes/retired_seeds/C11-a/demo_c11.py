""" Demonstration for property C11: command exclusivity and init/finalize pairing.

A method issuing same-name and overlapping UOD commands of different durations is run, and the
user presses Stop after k ticks - for every k in a range (one fresh engine per k). A ledger fed by
the UOD commands' own init/exec/finalize callbacks then checks, per run:

 - every command instance is initialized exactly once, before its first execution
 - every command instance is finalized exactly once - also when the run is stopped
 - no instance executes after it was finalized, and nothing executes once the run has stopped
 - at no tick do two instances of the same command, or of two overlapping commands, execute
 - the uod holds no live command instances once the run has stopped

Run as:  cd /tmp/seed-C11 && /venv/bin/python demo_c11.py
Prints PASS and exits 0 when the property holds for all stop ticks, else prints FAIL and exits 1.
"""
import logging
import sys
import time
from collections import defaultdict

logging.disable(logging.CRITICAL)

from openpectus.engine.engine import Engine, EngineTiming  # noqa E402
from openpectus.engine.models import EngineCommandEnum, SystemStateEnum, SystemTagName  # noqa E402
from openpectus.lang.exec.clock import WallClock  # noqa E402
from openpectus.lang.exec.timer import NullTimer  # noqa E402
from openpectus.lang.exec.uod import UodBuilder, UodCommand  # noqa E402
from openpectus.test.engine.test_helpers import TestHW  # noqa E402
import openpectus.protocol.models as Mdl  # noqa E402

METHOD = """\
Mark: A
Slow
Valve1
Mark: B
Slow
Valve2
Mark: C
Quick
Valve1
Quick
Mark: D
"""
DURATIONS = {"Slow": 6, "Valve1": 5, "Valve2": 5, "Quick": 0}
OVERLAPS = [["Valve1", "Valve2"]]
MAX_STOP_TICK = 16


class Ledger:
    """ Records what the uod command callbacks observe. Keyed by command instance. """
    def __init__(self) -> None:
        self.engine: Engine | None = None
        self.instances: list[UodCommand] = []
        self.inits: dict[int, list[int]] = defaultdict(list)
        self.execs: dict[int, list[int]] = defaultdict(list)
        self.finals: dict[int, list[int]] = defaultdict(list)

    @property
    def tick(self) -> int:
        assert self.engine is not None
        return self.engine._tick_number

    def _seen(self, cmd: UodCommand):
        if not any(c is cmd for c in self.instances):
            self.instances.append(cmd)

    def on_init(self, cmd: UodCommand):
        self._seen(cmd)
        self.inits[id(cmd)].append(self.tick)

    def on_exec(self, cmd: UodCommand):
        self._seen(cmd)
        self.execs[id(cmd)].append(self.tick)

    def on_final(self, cmd: UodCommand):
        self._seen(cmd)
        self.finals[id(cmd)].append(self.tick)


def create_uod(ledger: Ledger):
    def make_exec(duration: int):
        def exec_fn(cmd: UodCommand, **kvargs) -> None:
            ledger.on_exec(cmd)
            if cmd.get_iteration_count() >= duration:
                cmd.set_complete()
        return exec_fn

    builder = (
        UodBuilder()
        .with_instrument("DemoUod")
        .with_author("Demo Author", "demo@openpectus.org")
        .with_filename(__file__)
        .with_hardware(TestHW())
        .with_location("Demo location")
    )
    for name, duration in DURATIONS.items():
        builder.with_command(name=name, exec_fn=make_exec(duration), init_fn=ledger.on_init, finalize_fn=ledger.on_final)
    for names in OVERLAPS:
        builder.with_command_overlap(names)
    uod = builder.build()
    uod.hwl.connect()
    return uod


def run_once(stop_after_ticks: int) -> list[str]:
    """ Run the method, press Stop after the given number of ticks and return the list of violations. """
    ledger = Ledger()
    uod = create_uod(ledger)
    engine = Engine(uod, EngineTiming(WallClock(), NullTimer(), 0.1, 1.0))
    ledger.engine = engine
    try:
        engine.run(skip_timer_start=True)
        engine.set_method(Mdl.Method.from_pcode(METHOD))
        engine.schedule_execution(EngineCommandEnum.START)

        def tick(n: int):
            for _ in range(n):
                engine.tick(time.time(), 0.1)

        tick(stop_after_ticks)
        # the user presses Stop in the frontend
        engine.execute_control_command_from_user(EngineCommandEnum.STOP)
        state = engine._system_tags[SystemTagName.SYSTEM_STATE]
        stopped_at = None
        for _ in range(10):
            tick(1)
            if state.get_value() == SystemStateEnum.Stopped:
                stopped_at = engine._tick_number
                break
        tick(5)  # the engine keeps ticking after the run has stopped

        errors: list[str] = []
        if stopped_at is None:
            return ["run did not stop"]

        for cmd in ledger.instances:
            key, label = id(cmd), f"{cmd.name}#{ledger.instances.index(cmd)}"
            inits, execs, finals = ledger.inits[key], ledger.execs[key], ledger.finals[key]
            if len(inits) != 1:
                errors.append(f"{label}: initialized {len(inits)} times, ticks {inits}")
            if len(finals) != 1:
                errors.append(f"{label}: finalized {len(finals)} times (ticks {finals}), executed at ticks {execs}, " +
                              f"run stopped at tick {stopped_at}")
            if inits and execs and min(execs) < inits[0]:
                errors.append(f"{label}: executed at tick {min(execs)} before initialization at tick {inits[0]}")
            if finals and execs and max(execs) > finals[0]:
                errors.append(f"{label}: executed at tick {max(execs)} after finalization at tick {finals[0]}")
            if execs and max(execs) > stopped_at:
                errors.append(f"{label}: executed at tick {max(execs)} after run stopped at tick {stopped_at}")

        # exclusivity per tick
        per_tick: dict[int, list[UodCommand]] = defaultdict(list)
        for cmd in ledger.instances:
            for t in set(ledger.execs[id(cmd)]):
                per_tick[t].append(cmd)
        for t, cmds in sorted(per_tick.items()):
            for i, a in enumerate(cmds):
                for b in cmds[i + 1:]:
                    if a.name == b.name or any(a.name in lst and b.name in lst for lst in OVERLAPS):
                        errors.append(f"tick {t}: '{a.name}' and '{b.name}' instances both executed")

        if uod.has_any_command_instances():
            errors.append(f"uod still holds live command instances after stop: {list(uod.command_instances.keys())}")
        return errors
    finally:
        engine.cleanup()


def main() -> int:
    failed = False
    for stop_after_ticks in range(1, MAX_STOP_TICK + 1):
        errors = run_once(stop_after_ticks)
        if errors:
            failed = True
            print(f"Stop requested after {stop_after_ticks:2d} ticks: VIOLATION")
            for e in errors:
                print(f"    {e}")
        else:
            print(f"Stop requested after {stop_after_ticks:2d} ticks: ok")
    print("FAIL" if failed else "PASS")
    return 1 if failed else 0


if __name__ == "__main__":
    sys.exit(main())
