"""
Demonstration for property C24: "No lost or stale hardware writes after an outage".

Drives the real ErrorRecoveryDecorator the way Engine.write_process_image() does: once per cycle
the decorator is ticked and the full set of output registers is written with write_batch(); a
HardwareLayerException from write_batch is caught (the engine would go "paused on error") and the
engine keeps cycling.

The hardware behind the decorator is a plain in-memory register file that can be switched into a
"link down" mode in which write and connect raise HardwareLayerException.

Observed behaviour (the property's own): after every write cycle that succeeds while the link is
up, every output register of the hardware must hold the value most recently commanded by the engine.

Scenario "long outage": the link goes down while the engine keeps commanding a new value for
register A in every cycle. The outage lasts long enough for the decorator to go
OK -> Issue -> Reconnect -> Error (timeouts shortened via ErrorRecoveryConfig). From the cycle in
which the decorator gives up masking (state Error) the engine keeps commanding that same last value.
The link comes back, the decorator reconnects on a back-off tick, and the engine goes on writing
the unchanged values for some cycles, then changes them again.

Exit code 0 / "PASS" if the property was observed to hold, 1 / "FAIL" otherwise.
"""
import logging
import sys
import time
from typing import Any

from openpectus.engine.hardware import HardwareLayerBase, HardwareLayerException, Register, RegisterDirection
from openpectus.engine.hardware_recovery import ErrorRecoveryConfig, ErrorRecoveryDecorator, ErrorRecoveryState
from openpectus.lang.exec.tags import SystemTagName, create_system_tags

logging.disable(logging.CRITICAL)

CYCLE_SECONDS = 0.05


class RegisterFileHardware(HardwareLayerBase):
    """ Faithful in-memory hardware: a write stores the value, unless the link is down. """

    def __init__(self) -> None:
        super().__init__()
        for name in ["A", "B"]:
            self.registers[name] = Register(name, RegisterDirection.Write)
        self.values: dict[str, Any] = {}
        self.link_down = False

    def read(self, r: Register) -> Any:
        raise NotImplementedError

    def write(self, value: Any, r: Register) -> None:
        if self.link_down:
            raise HardwareLayerException("link down")
        self.values[r.name] = value

    def connect(self):
        if self.link_down:
            raise HardwareLayerException("link down")
        self._is_connected = True

    def disconnect(self):
        self._is_connected = False


class Rig:
    def __init__(self, reconnect_timeout: float, error_timeout: float) -> None:
        self.hw = RegisterFileHardware()
        config = ErrorRecoveryConfig()
        config.reconnect_timeout_seconds = reconnect_timeout  # type: ignore
        config.error_timeout_seconds = error_timeout  # type: ignore
        tag = create_system_tags()[SystemTagName.CONNECTION_STATUS]
        self.hwl = ErrorRecoveryDecorator(self.hw, config, tag)
        self.hwl.connect()
        self.commanded: dict[str, Any] = {}
        self.violations: list[str] = []
        self.cycle_no = 0
        self.trace: list[str] = []

    def cycle(self, a: Any, b: Any, sleep: bool = True) -> bool:
        """ One engine write cycle. Returns True if the cycle was a success on a live link. """
        self.cycle_no += 1
        self.commanded = {"A": a, "B": b}
        registers = [r for r in self.hwl.registers.values() if RegisterDirection.Write in r.direction]
        values = [self.commanded[r.name] for r in registers]
        self.hwl.tick()
        raised = False
        try:
            self.hwl.write_batch(values, registers)
        except HardwareLayerException:
            raised = True  # engine: set_error_state(), keep ticking
        success = (not raised) and (not self.hw.link_down) and self.hwl.get_recovery_state() == ErrorRecoveryState.OK
        self.trace.append(
            f"  cycle {self.cycle_no:4d} link={'DOWN' if self.hw.link_down else 'up  '} "
            f"commanded={self.commanded} hardware={self.hw.values} "
            f"state={self.hwl.get_recovery_state().name}{' (write raised)' if raised else ''}")
        if success and self.hw.values != self.commanded:
            self.violations.append(
                f"cycle {self.cycle_no}: write cycle succeeded but hardware holds {self.hw.values}, "
                f"engine most recently commanded {self.commanded}")
        if sleep:
            time.sleep(CYCLE_SECONDS)
        return success


def scenario_long_outage() -> Rig:
    rig = Rig(reconnect_timeout=0.2, error_timeout=0.4)
    a = 100
    # normal operation, changing and unchanging values
    for _ in range(3):
        rig.cycle(a, 7)
    a += 1
    rig.cycle(a, 7)

    # link goes down; engine commands a new value for A in every cycle
    rig.hw.link_down = True
    deadline = time.time() + 20
    while rig.hwl.get_recovery_state() != ErrorRecoveryState.Error:
        if time.time() > deadline:
            raise RuntimeError("decorator never reached state Error")
        a += 1
        rig.cycle(a, 7)
    # decorator no longer masks errors; engine is paused on error and keeps its outputs unchanged
    for _ in range(3):
        rig.cycle(a, 7)

    # link comes back; decorator reconnects on one of its back-off ticks
    rig.hw.link_down = False
    n = 0
    while not rig.cycle(a, 7, sleep=False):
        n += 1
        if n > 20000:
            raise RuntimeError("decorator never reconnected")
    # unchanged values for a while, then changing again
    for _ in range(4):
        rig.cycle(a, 7, sleep=False)
    for _ in range(2):
        a += 1
        rig.cycle(a, 8, sleep=False)
        rig.cycle(a, 8, sleep=False)
    return rig


def scenario_short_outage() -> Rig:
    """ Sanity: a short glitch (state Issue only) with values that do not change over the glitch. """
    rig = Rig(reconnect_timeout=10, error_timeout=60)
    rig.cycle(1, 1, sleep=False)
    rig.cycle(2, 1, sleep=False)
    rig.hw.link_down = True
    rig.cycle(3, 1, sleep=False)
    rig.cycle(3, 1, sleep=False)
    rig.hw.link_down = False
    for _ in range(3):
        rig.cycle(3, 1, sleep=False)
    rig.cycle(4, 2, sleep=False)
    rig.cycle(4, 2, sleep=False)
    return rig


def main() -> int:
    failed = False
    for scenario in [scenario_short_outage, scenario_long_outage]:
        rig = scenario()
        print(f"--- {scenario.__name__}: {rig.cycle_no} cycles, {len(rig.violations)} violation(s)")
        for line in rig.trace:
            print(line)
        for v in rig.violations:
            print("  VIOLATION:", v)
        failed = failed or len(rig.violations) > 0
    print("FAIL" if failed else "PASS")
    return 1 if failed else 0


if __name__ == "__main__":
    sys.exit(main())
