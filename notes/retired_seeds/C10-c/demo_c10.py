""" Demonstration for property C10: "Stop and Restart leave no command running and start cleanly".

Run as:  cd <worktree> && python demo_c10.py

The demo drives the real Engine (no mocks) tick by tick with a synthetic clock. A method starts a
long-running UOD command ("Flush") and simulates a tag; while it runs, the operator starts a second
long-running UOD command ("Prime") the way the aggregator does (Engine.execute_control_command_from_user).
Then the operator issues Stop or Restart, at several different tick offsets.

Checked (the property's own observables):
  * when Stop/Restart has completed no UOD command holds an instance (uod.has_any_command_instances())
    and none is executed any more (exec_fn is not called again, every initialised command was finalised),
  * the UOD command started by the method is shown as cancelled/ended in the run log built when the run ends,
  * tag simulations are cleared and the Run Id is cleared,
  * after Restart the method runs again from its first line, with fresh command instances, under a new run id.

Exit code 0 and "PASS" when everything holds, exit code 1 and "FAIL" otherwise.
"""
from __future__ import annotations

import logging
import os
import sys

# locate the package relative to this file (or the current working directory)
_here = os.path.dirname(os.path.abspath(__file__))
for _candidate in (_here, os.getcwd()):
    if os.path.isdir(os.path.join(_candidate, "openpectus")):
        sys.path.insert(0, _candidate)
        break

logging.disable(logging.CRITICAL)  # the engine is chatty; the demo reports by itself

import pint  # noqa: E402
_ = pint.Quantity("0 s")  # warm up pint

import openpectus  # noqa: E402
import openpectus.protocol.models as Mdl  # noqa: E402
from openpectus.engine.engine import Engine, EngineTiming  # noqa: E402
from openpectus.engine.engine_message_builder import EngineMessageBuilder  # noqa: E402
from openpectus.lang.exec.clock import WallClock  # noqa: E402
from openpectus.lang.exec.events import EventListener  # noqa: E402
from openpectus.lang.exec.tags import SystemTagName, Tag  # noqa: E402
from openpectus.lang.exec.timer import NullTimer  # noqa: E402
from openpectus.lang.exec.uod import UodBuilder, UodCommand  # noqa: E402

logging.disable(logging.CRITICAL)

INTERVAL = 0.1

METHOD = """\
Mark: A
Simulate: Level = 7
Flush
Wait: 30s
Mark: B
"""


class Probe:
    """ Records what the 'hardware side' of the UOD commands observes. """
    def __init__(self) -> None:
        self.init: dict[str, int] = {"Flush": 0, "Prime": 0}
        self.execs: dict[str, int] = {"Flush": 0, "Prime": 0}
        self.final: dict[str, int] = {"Flush": 0, "Prime": 0}
        self.first_iterations: dict[str, list[int]] = {"Flush": [], "Prime": []}


def create_uod(probe: Probe):
    def make(name: str):
        def init_fn(cmd: UodCommand) -> None:
            probe.init[name] += 1

        def exec_fn(cmd: UodCommand, **kvargs) -> None:
            probe.execs[name] += 1
            if cmd.get_iteration_count() == 0:
                probe.first_iterations[name].append(probe.execs[name])
            if cmd.get_iteration_count() >= 500:  # long-running: far longer than the demo
                cmd.set_complete()

        def finalize_fn(cmd: UodCommand) -> None:
            probe.final[name] += 1
        return dict(name=name, exec_fn=exec_fn, init_fn=init_fn, finalize_fn=finalize_fn, arg_parse_fn=None)

    uod = (
        UodBuilder()
        .with_instrument("DemoUod")
        .with_author("Demo Author", "demo@openpectus.org")
        .with_filename(__file__)
        .with_hardware_none()
        .with_location("Demo location")
        .with_tag(Tag("Level", value=1.0, unit=None))
        .with_command(**make("Flush"))
        .with_command(**make("Prime"))
        .build()
    )
    uod.hwl.connect()
    return uod


class RunObserver(EventListener):
    """ Plays the role of the engine's reporter: builds the run log message when the run ends. """
    def __init__(self, engine: Engine) -> None:
        super().__init__()
        self.engine = engine
        self.builder = EngineMessageBuilder(engine, secret="", ignore_version_error=True)
        self.started_run_ids: list[str] = []
        self.stopped_runlogs: list[Mdl.RunLog] = []
        self.instances_at_start: list[list[str]] = []

    def on_start(self, run_id: str):
        self.started_run_ids.append(run_id)
        self.instances_at_start.append(list(self.engine.uod.command_instances.keys()))

    def on_stop(self):
        run_id = self.run_id or ""
        super().on_stop()
        self.stopped_runlogs.append(self.builder.create_runlog_msg(run_id).runlog)


class Driver:
    def __init__(self) -> None:
        self.probe = Probe()
        self.uod = create_uod(self.probe)
        self.engine = Engine(self.uod, EngineTiming(WallClock(), NullTimer(), INTERVAL, 1.0))
        self.engine.run(skip_timer_start=True)
        self.engine.set_method(Mdl.Method.from_pcode(METHOD))
        self.observer = RunObserver(self.engine)
        self.engine.emitter.add_listener(self.observer)
        self.now = 1_700_000_000.0
        self.ticks = 0

    def tick(self, count: int = 1):
        for _ in range(count):
            self.now += INTERVAL
            self.engine.tick(self.now, INTERVAL)
            self.ticks += 1

    def tick_until(self, condition, max_ticks: int = 100) -> bool:
        for _ in range(max_ticks):
            if condition():
                return True
            self.tick()
        return condition()

    def tag(self, name: str):
        return self.engine.tags[name]

    def close(self):
        self.engine.cleanup()


def run_scenario(kind: str, offset: int) -> list[str]:
    """ kind is 'Stop' or 'Restart'; offset is the number of ticks the operator command has been running. """
    problems: list[str] = []
    d = Driver()
    try:
        e, uod, probe, obs = d.engine, d.uod, d.probe, d.observer

        e.execute_control_command_from_user("Start")
        if not d.tick_until(lambda: probe.execs["Flush"] > 0):
            return ["setup: the method's Flush command never started"]
        if not d.tag("Level").simulated:
            return ["setup: Level is not simulated"]
        first_run_id = d.tag(SystemTagName.RUN_ID).get_value()

        # the operator starts a second long-running command, like the aggregator does
        e.execute_control_command_from_user("Prime")
        d.tick(1 + offset)
        if probe.execs["Prime"] == 0 or not uod.has_command_instance("Prime"):
            return ["setup: the operator's Prime command never started"]

        # --- the operator ends the run ---
        e.execute_control_command_from_user(kind)
        if kind == "Stop":
            done = d.tick_until(lambda: d.tag(SystemTagName.SYSTEM_STATE).get_value() == "Stopped"
                                and len(obs.stopped_runlogs) == 1)
        else:
            done = d.tick_until(lambda: len(obs.started_run_ids) == 2)
        if not done:
            return [f"{kind} did not complete"]

        execs_when_done = dict(probe.execs)
        prime_execs_when_done = probe.execs["Prime"]
        if kind == "Stop":
            d.tick(5)
        else:
            # let the new run get going: its first lines run again
            d.tick_until(lambda: len(probe.first_iterations["Flush"]) == 2, max_ticks=20)
            d.tick(3)

        # 1. no UOD command of the ended run is still executing or holding an instance
        if kind == "Stop":
            if uod.has_any_command_instances():
                problems.append(f"after Stop the uod still holds command instances: {list(uod.command_instances)}")
            if probe.execs != execs_when_done:
                problems.append(f"commands were executed after Stop completed: {execs_when_done} -> {probe.execs}")
            for name in ("Flush", "Prime"):
                if probe.init[name] != probe.final[name]:
                    problems.append(f"{name}: initialised {probe.init[name]}x but finalised {probe.final[name]}x")
        else:
            if obs.instances_at_start[1] != []:
                problems.append("when the restarted run started, the uod still held command instances of the "
                                f"ended run: {obs.instances_at_start[1]}")
            if uod.has_command_instance("Prime"):
                problems.append("after Restart the operator's Prime command of the ended run still holds its instance")
            if probe.execs["Prime"] != prime_execs_when_done:
                problems.append("Prime of the ended run was executed after Restart completed")
            if probe.init["Prime"] != probe.final["Prime"]:
                problems.append(f"Prime: initialised {probe.init['Prime']}x but finalised {probe.final['Prime']}x")
            if probe.final["Flush"] != 1:
                problems.append(f"Flush of the ended run was finalised {probe.final['Flush']}x, expected 1")

        # 2. run log sent when the run ends: the method's UOD command is concluded
        if len(obs.stopped_runlogs) != 1:
            problems.append(f"expected exactly one ended run, got {len(obs.stopped_runlogs)}")
        else:
            lines = [line for line in obs.stopped_runlogs[0].lines if line.command_name == "Flush"]
            if len(lines) != 1:
                problems.append(f"expected one Flush line in the final run log, got {len(lines)}")
            elif not (lines[0].cancelled or lines[0].failed or lines[0].end is not None):
                problems.append("the final run log shows Flush as still running")

        # 3. simulations and run id
        if kind == "Stop":
            simulated = [t.name for t in e.tags if t.simulated]
            if simulated:
                problems.append(f"tags still simulated after Stop: {simulated}")
            if d.tag(SystemTagName.RUN_ID).get_value() is not None:
                problems.append("Run Id is not cleared after Stop")
        else:
            # 4. the method runs again from its first line under a new run id, with fresh commands
            new_run_id = d.tag(SystemTagName.RUN_ID).get_value()
            if new_run_id is None or new_run_id == first_run_id:
                problems.append(f"Restart did not produce a new run id: {first_run_id} -> {new_run_id}")
            if len(probe.first_iterations["Flush"]) != 2 or probe.init["Flush"] != 2:
                problems.append("after Restart the method did not start Flush again with a fresh instance")
            if not d.tag("Level").simulated:
                problems.append("after Restart the method's Simulate line did not run again")
            if e.interpreter.get_marks() != ["A"]:
                problems.append(f"after Restart the marks of the new run are {e.interpreter.get_marks()}, expected ['A']")
    finally:
        d.close()
    return problems


def main() -> int:
    print(f"openpectus package: {os.path.dirname(openpectus.__file__)}")
    failures = 0
    for kind in ("Stop", "Restart"):
        for offset in range(0, 4):
            problems = run_scenario(kind, offset)
            label = f"{kind:7s} issued {offset + 1} tick(s) after the operator started Prime"
            if problems:
                failures += 1
                print(f"  FAIL  {label}")
                for problem in problems:
                    print(f"          - {problem}")
            else:
                print(f"  ok    {label}")
    if failures:
        print(f"FAIL ({failures} scenario(s) violate the property)")
        return 1
    print("PASS")
    return 0


if __name__ == "__main__":
    sys.exit(main())
