#!/usr/bin/env python3
"""Merges reviewed proposals (notes/proposed_findings/Cnn.json) into known_findings.json.  usage: tools_merge_findings.py C32 [C07 ...]
   Only the maintainer runs this, by hand, after reviewing the proposal; checks never write known_findings.json."""
import json, sys
kf = json.load(open('/verif/known_findings.json'))
have = {e['key'] for e in kf['findings']}
for pid in sys.argv[1:]:
    for e in json.load(open(f'/verif/notes/proposed_findings/{pid}.json'))['findings']:
        if e['key'] in have:
            continue
        kf['findings'].append({k: e[k] for k in ('property', 'key', 'status', 'summary', 'witness_shape', 'classifier') if k in e})
        print('added', e['key'])
kf['findings'].sort(key=lambda e: (e['property'], e['key']))
json.dump(kf, open('/verif/known_findings.json', 'w'), indent=1)
