#!/venv/bin/python
"""Mutant self-test (not a MANIFEST command): applies each mutants/<ID>-*.patch (or seeded/<name>/patch.diff) to a
scratch copy of /repo/openpectus, runs the property's quick check with OPV_REPO pointing at the copy and expects
exit 1 with a VIOLATION line for that property. The copy is removed afterwards. /repo is never touched.

    ./selftest.py                 all mutants
    ./selftest.py C07 C24         only these properties
    ./selftest.py --seeded        the kept seeded changes under seeded/*/ (meta.json names the property)
"""
import glob
import json
import os
import shutil
import subprocess
import sys
import tempfile

VERIF = os.path.dirname(os.path.abspath(__file__))
REPO = "/repo"


def run_one(prop: str, patch: str, tier: str = "quick") -> tuple[bool, str]:
    tmp = tempfile.mkdtemp(prefix="opv-mut-")
    try:
        shutil.copytree(os.path.join(REPO, "openpectus"), os.path.join(tmp, "openpectus"),
                        ignore=shutil.ignore_patterns("__pycache__", "*.pyc"))
        # the openapi comparison of the aggregator server looks for ../frontend/openapi.json next to the package
        if os.path.exists(os.path.join(REPO, "frontend", "openapi.json")):
            os.makedirs(os.path.join(tmp, "frontend"), exist_ok=True)
            shutil.copy(os.path.join(REPO, "frontend", "openapi.json"), os.path.join(tmp, "frontend", "openapi.json"))
        head = open(patch).read(4000)
        strip = "-p1" if ("--- a/" in head or "+++ b/" in head) else "-p0"
        p = subprocess.run(["patch", strip, "-s", "-f", "-i", patch], cwd=tmp, capture_output=True, text=True)
        if p.returncode != 0:
            return False, f"patch does not apply: {p.stdout[-300:]}{p.stderr[-300:]}"
        env = dict(os.environ, OPV_REPO=tmp, OPV_JOBS=os.environ.get("OPV_JOBS", "8"), OPV_OUT_DIR=os.path.join(tmp, "out"))
        env.pop("OPV_EXTRA_FINDINGS", None)
        c = subprocess.run(["/venv/bin/python", "-m", "opv.cli", "check", prop, "--tier", tier], cwd=VERIF, env=env,
                           capture_output=True, text=True, timeout=3600)
        fired = c.returncode == 1 and f"VIOLATION property={prop}" in c.stdout
        tail = [ln for ln in c.stdout.splitlines() if ln.startswith(("  witness", "INCONCLUSIVE", "HELD"))][:2]
        return fired, f"exit={c.returncode} " + " | ".join(t[:160] for t in tail)
    finally:
        shutil.rmtree(tmp, ignore_errors=True)


def main(argv):
    jobs = []
    if "--seeded" in argv:
        for d in sorted(glob.glob(os.path.join(VERIF, "seeded", "*", ""))):
            meta = json.load(open(os.path.join(d, "meta.json")))
            jobs.append((meta["property"], os.path.join(d, "patch.diff")))
    else:
        want = {a for a in argv if a.startswith("C")}
        for pth in sorted(glob.glob(os.path.join(VERIF, "mutants", "C*-*.patch"))):
            prop = os.path.basename(pth).split("-")[0]
            if not want or prop in want:
                jobs.append((prop, pth))
    bad = 0
    for prop, pth in jobs:
        ok, info = run_one(prop, pth)
        print(f"{'CAUGHT ' if ok else 'MISSED '} {prop} {os.path.relpath(pth, VERIF)}  {info}", flush=True)
        bad += not ok
    print(f"{len(jobs) - bad}/{len(jobs)} caught")
    return 1 if bad else 0


if __name__ == "__main__":
    sys.exit(main(sys.argv[1:]))
