#!/usr/bin/env python3
"""Runs checks against a kept seeded change (scratch copy of /repo + patch, via selftest.run_one) and records which
checks catch it in seeded/<name>/meta.json:   tools_seed_eval.py C02-a C02 C05 [--tier thorough]"""
import json
import sys

sys.path.insert(0, "/verif")
import selftest  # noqa

name = sys.argv[1]
tier = "thorough" if "--tier" in sys.argv and sys.argv[sys.argv.index("--tier") + 1] == "thorough" else "quick"
props = [a for a in sys.argv[2:] if a.startswith("C")]
mp = f"/verif/seeded/{name}/meta.json"
meta = json.load(open(mp))
props = props or [meta["property"]]
res = meta.get("check_results", {})
for p in props:
    ok, info = selftest.run_one(p, f"/verif/seeded/{name}/patch.diff", tier)
    res[f"{p}:{tier}"] = {"caught": ok, "info": info[:400]}
    print(name, p, tier, "CAUGHT" if ok else "missed", info[:300], flush=True)
meta["check_results"] = res
meta["caught_by"] = sorted(k for k, v in res.items() if v["caught"])
json.dump(meta, open(mp, "w"), indent=1)
