#!/usr/bin/env python3
"""tools_mark_fixed.py <key> <repo commit> : sets status 'fixed: property=<id> <commit> <what failed>' (suppresses nothing)."""
import json, sys
key, commit = sys.argv[1], sys.argv[2]
kf = json.load(open('/verif/known_findings.json'))
for e in kf['findings']:
    if e['key'] == key:
        e['status'] = f"fixed: property={e['property']} {commit} {e['summary'][:160]}"
        print('marked', key)
json.dump(kf, open('/verif/known_findings.json', 'w'), indent=1)
